"""C20 - memos survive segmentation into grams and any delivery order, duplication, interleaving."""
from itertools import combinations, permutations

from .. import memosys as ms
from ..enum import Acc

PID = "C20"
LEVEL = "model_checking"
ASSUMPTIONS = [
    "memos {'a', 'é', 'aéb', a 12-character and a 40-character text with multi-byte characters}; a second memo of the same byte "
    "length from a second source and a second signer is used for interleaving",
    "memo ids come from a counter-based stand-in for uuid (hio.core.memo.memoing.uuid); ed25519 seeds are constants; vids are "
    "non-transferable ('B') so the receiver needs no key store",
    "the sender is the real Memoer.rend (under a step guard and a CPU-time itimer), the receiver the real Memoer/AuthMemoer fed through its "
    "own receive(echoic) datagram queue and serviceAllRx(); signed codes are received by an authic receiver (thorough: also by a plain "
    "one), unsigned codes by a plain one",
    "a legal gram size is one the size setter keeps as is: >= zeroth-gram overhead + 1 (overhead x 3/4 with base2 headers)",
    "datagrams are serviced one at a time (serviceAllRx after each) and also as one batch (quick: interleavings one at a time only)",
]
MEMOS = ["a", "é", "aéb", "héllo wörld!", "abcdé" * 8]
SRC_A, SRC_B = "alice:1", "bob:2"


def K(tier):
    return 3 if tier == "quick" else 4


def RULE(tier):
    return ("for each of 5 memos x 4 zeroth-gram codes (plain/auth x sure) x {base64, base2} headers: EVERY gram size from the legal "
            "minimum up to the first size that yields a single gram (sizes at which rend fails do not end the range) is rended by the real Memoer.rend (must return, within the size, "
            "without exception or hang); for every size whose gram count is 1..%d the grams are delivered to a fresh real receiver in "
            "every permutation, every permutation with one duplicate inserted at every position, every permutation of every strict "
            "subset (nothing may be delivered), every order-preserving merge of every permutation with the grams of a second memo "
            "(in order%s); requested sizes below the legal minimum (1, 2, half, minimum-45/-44/-2/-1) must be raised by the size setter to a size that rends and delivers, also when the sender was built for the other header encoding and switched afterwards (sizes around both minimums); every such merge of every permutation of every non-empty strict subset (an incomplete first memo) with "
            "the complete second memo, and every duplicate-carrying sequence followed or preceded by the complete second memo. Oracle: inbox == multiset of (text, source, vid) of the complete memos. A case is one delivered datagram "
            "sequence; all are distinct by construction." % (K(tier), " and reversed" if tier != "quick" else ""))


def EXHAUSTIVE(tier):
    return True


def jobs(tier):
    js = []
    for code in ms.ZCODES:
        for curt in (False, True):
            for mi in range(len(MEMOS)):
                nshard = 4 if mi == 4 else 1
                rxs = (True, False) if (code in ms.SIGNED and tier != "quick") else (code in ms.SIGNED,)
                for authic in rxs:
                    for k in range(nshard):
                        js.append((code, curt, mi, k, nshard, authic))
    return js


def ref_count(code, curt, size, ml):
    """gram count an ideal segmenter needs (true overheads)"""
    zo, no = ms.true_overheads(code, curt)
    zb, nb = size - zo, size - no
    if ml <= zb:
        return 1
    return 1 + -(-(ml - zb) // nb)


def setup(code, curt, size, mi, authic=None):
    """rend memo A (alice) and memo B (bob) with fresh deterministic mids -> dict or (None, viols)"""
    ms.UUID.reset(0)
    memoA = MEMOS[mi]
    memoB = memoA.upper()
    authic = (code in ms.SIGNED) if authic is None else authic
    auth = ("signed" if authic else "signed-to-plain-receiver") if code in ms.SIGNED else "unsigned"
    enc = "b2" if curt else "b64"
    viols = []
    out = []
    for memo, who in ((memoA, ms.ALICE), (memoB, ms.BOB)):
        grams, eff, ex = ms.rend(code, curt, size, memo, who)
        if ex is not None:
            if isinstance(ex, ms.Hang):
                viols.append(("rend-hangs:%s:%s" % (auth, enc), "rend(%r) size=%d code=%s curt=%s does not terminate (%s)" % (memo, size, code, curt, ex)))
            else:
                viols.append(("rend-raises:%s:%s:%s:%s" % (ms.site_of(ex), type(ex).__name__, auth, enc),
                              "rend(%r) with legal gram size %d (minimum %d) code=%s curt=%s raised %r" % (
                                  memo, size, ms.min_size(code, curt), code, curt, ex)))
            return None, viols
        if eff != size:
            viols.append(("size-not-kept:%s:%s" % (auth, enc), "size %d was changed to %d by the setter" % (size, eff)))
        big = [len(g) for g in grams if len(g) > size]
        if big or not grams:
            viols.append(("rend-gram-exceeds-size:%s:%s" % (auth, enc), "rend(%r) size=%d gave gram lengths %r" % (memo, size, [len(g) for g in grams])))
        out.append(grams)
    vidA = ms.ALICE.vid if code in ms.SIGNED else None
    vidB = ms.BOB.vid if code in ms.SIGNED else None
    return dict(grams=out, want=[(memoA, SRC_A, vidA), (memoB, SRC_B, vidB)], auth=auth, enc=enc, code=code, authic=authic), viols


def order_class(seq, m):
    first = []
    for mm, g in seq:
        if mm == m and g not in first:
            first.append(g)
    if first == sorted(first):
        return "in-order"
    if first and first[0] == 0:
        return "zeroth-first"
    # the zeroth gram comes late; do copies of all grams arrive from then on (a receiver that drops what it cannot
    # verify yet is still given everything once it can)?
    own = [g for mm, g in seq if mm == m]
    if 0 in own and set(own[own.index(0):]) == set(own):
        return "zeroth-late-all-again"
    return "zeroth-late"


def judge(ctx, seq, step):
    """deliver seq = [(memo index, gram index)...] to a fresh receiver; return (obs, viols)"""
    grams, want = ctx["grams"], ctx["want"]
    r = ms.receiver(ctx["authic"])
    srcs = (SRC_A, SRC_B)
    ex = ms.deliver(r, [(grams[m][g], srcs[m]) for m, g in seq], step=step)
    viols = []
    tag = "%s:%s" % (ctx["auth"], ctx["enc"])
    mode = "step" if step else "batch"
    if ex is not None:
        viols.append((ms.escape_key(ex), "delivery %r (%s) raised %r" % (seq, mode, ex)))
    got = [tuple(x) for x in r.inbox]
    dup = len(set(seq)) < len(seq)
    for m in (0, 1):
        have = {g for mm, g in seq if mm == m}
        complete = len(have) == len(grams[m])
        n = got.count(want[m])
        if complete and n == 0:
            viols.append(("lost:%s:%s%s" % (tag, order_class(seq, m), ":with-duplicate" if dup else ""),
                          "memo %r (%d grams) fully delivered in order %r (%s) but inbox=%r" % (want[m][0], len(grams[m]), seq, mode, got)))
        elif complete and n > 1:
            viols.append(("delivered-twice:%s:%s" % (tag, mode), "memo %r delivered %d times for order %r (%s)" % (want[m][0], n, seq, mode)))
        elif not complete and n:
            viols.append(("delivered-incomplete:%s" % tag, "memo %r delivered although only grams %r of %d arrived" % (want[m][0], sorted(have), len(grams[m]))))
    for x in got:
        if x not in want:
            texts = [w[0] for w in want]
            if x[0] in texts:
                w = want[texts.index(x[0])]
                field = "source" if x[1] != w[1] else "vid"
                if x[1] != w[1] and want[0][0] == want[1][0]:
                    field = "source-or-vid"
            else:
                field = "text"
            viols.append(("delivered-wrong-%s:%s" % (field, tag), "inbox entry %r is none of %r (order %r, %s)" % (x, want, seq, mode)))
    return (len(got), tuple(sorted(k for k, _ in viols))), viols


def merges(a, b):
    """all order-preserving merges of sequences a and b"""
    n, m = len(a), len(b)
    for pos in combinations(range(n + m), n):
        out = [None] * (n + m)
        ia = iter(a)
        for p in pos:
            out[p] = next(ia)
        ib = iter(b)
        yield [x if x is not None else next(ib) for x in out]


def sequences(nA, nB, tier):
    """(kind, seq, modes) for all delivery sequences of the stated space"""
    A = [(0, g) for g in range(nA)]
    B = [(1, g) for g in range(nB)]
    both = (True, False)
    for p in permutations(A):
        p = list(p)
        yield "perm", p, both
        for g in A:
            for pos in range(len(p) + 1):
                yield "dup", p[:pos] + [g] + p[pos:], both
    for k in range(0, nA):
        for sub in combinations(A, k):
            for p in permutations(sub):
                yield "subset", list(p), both
    border = [B] if tier == "quick" else [B, B[::-1]]
    for p in permutations(A):
        for bo in border:
            for s in merges(list(p), bo):
                yield "merge", s, (True,) if tier == "quick" else both
    # an INCOMPLETE first memo (every non-empty strict subset, every order) interleaved with a complete second memo:
    # the second memo must still be delivered, the first must not
    for k in range(1, nA):
        for sub in combinations(A, k):
            for p in permutations(sub):
                for bo in border:
                    for s in merges(list(p), bo):
                        yield "partial-merge", s, both
    # a complete first memo with one duplicated gram, followed (or preceded) by the complete second memo
    for p in permutations(A):
        p = list(p)
        for g in A:
            for pos in range(len(p) + 1):
                d = p[:pos] + [g] + p[pos:]
                yield "dup-then-second", d + B, both
                yield "second-then-dup", B + d, both


def encode_case(size, step, seq):
    return [size, 1 if step else 0] + [m * 16 + g for m, g in seq]


def decode_case(case):
    size, step = case[0], bool(case[1])
    return size, step, [(c // 16, c % 16) for c in case[2:]]


def clamp_case(code, curt, mi, requested, authic, switched=False):
    """a requested gram size BELOW the legal minimum: the size setter must raise it to a size that works
    switched: the sender was built for the other header encoding (where the size may have been legal) and then switched"""
    ms.UUID.reset(0)
    memo = MEMOS[mi]
    auth = ("signed" if authic else "signed-to-plain-receiver") if code in ms.SIGNED else "unsigned"
    enc = "b2" if curt else "b64"
    tag = "%s:%s" % (auth, enc)
    grams, eff, ex = ms.rend(code, curt, requested, memo, ms.ALICE, switched=switched)
    lo = ms.min_size(code, curt)
    if switched:
        tag += ":encoding-switched"
    what = ("sender built for the other encoding, then switched; " if switched else "") + "requested gram size %d (legal minimum %d) code=%s curt=%s: effective size %r" % (requested, lo, code, curt, eff)
    if eff < lo:
        v = [("size-clamp-too-low:%s" % tag, "%s is below the minimum (zeroth-gram overhead + 1)" % what)]
    elif ex is not None:
        # same keys as for a legal size given directly (the effective size is a legal size)
        key = ("rend-hangs:%s:%s" % (auth, enc)) if isinstance(ex, ms.Hang) else "rend-raises:%s:%s:%s:%s" % (ms.site_of(ex), type(ex).__name__, auth, enc)
        v = [(key, "%s, rend(%r) %r" % (what, memo, ex))]
    else:
        r = ms.receiver(authic)
        e2 = ms.deliver(r, [(g, SRC_A) for g in grams], step=True)
        want = (memo, SRC_A, ms.ALICE.vid if code in ms.SIGNED else None)
        got = [tuple(x) for x in r.inbox]
        v = [] if (e2 is None and got == [want]) else [("lost-after-clamp:%s" % tag, "%s: %d grams delivered in order, inbox %r (%r)" % (what, len(grams), got, e2))]
    return ("clamp", eff >= lo, len(v)), v


def run_job(job, tier, seed):
    code, curt, mi, shard, nshard, authic = job
    acc = Acc(job)
    if shard == 0:
        lo0 = ms.min_size(code, curt)
        for requested in sorted({1, 2, lo0 // 2, lo0 - 45, lo0 - 44, lo0 - 2, lo0 - 1} - {0}):
            if requested > 0:
                obs, v = clamp_case(code, curt, mi, requested, authic)
                acc.case(["clamp", requested], obs, v, sample=dict(memo=MEMOS[mi], code=code, curt=curt, requested=requested))
        # built for the other header encoding, then switched with the .curt setter: sizes around both minimums
        lo1 = ms.min_size(code, not curt)
        for requested in sorted({lo0 - 1, lo0, lo1 - 1, lo1, lo1 + 1, min(lo0, lo1) + 3, max(lo0, lo1) + 7} - {0}):
            if requested > 0:
                obs, v = clamp_case(code, curt, mi, requested, authic, switched=True)
                acc.case(["clamp-switched", requested], obs, v, sample=dict(memo=MEMOS[mi], code=code, curt=curt, requested=requested, switched=True))
    ml = len(MEMOS[mi].encode())
    lo = ms.min_size(code, curt)
    size = lo
    cnt = 0
    idx = 0
    while True:
        ctx, viols = setup(code, curt, size, mi, authic)      # cheap; every shard rends every size so all agree where to stop
        ngr = None if ctx is None else len(ctx["grams"][0])
        last = ref_count(code, curt, size, ml) == 1 and ngr == 1 or size > lo + ml + 64     # (a size at which rend fails is not the last one)
        if idx % nshard == shard:
            acc.case(encode_case(size, True, []), ("rend", size, ngr, tuple(k for k, _ in viols)), viols,
                     sample=dict(memo=MEMOS[mi], code=code, curt=curt, size=size, grams=ngr))
            if ctx is not None and ngr <= K(tier) and len(ctx["grams"][1]) <= K(tier):
                for kind, seq, modes in sequences(ngr, len(ctx["grams"][1]), tier):
                    for step in modes:
                        obs, v = judge(ctx, seq, step)
                        cnt += 1
                        if v or cnt % 499 == 1:
                            acc.case(encode_case(size, step, seq), (kind,) + obs, v,
                                     sample=dict(memo=MEMOS[mi], code=code, curt=curt, size=size, order=seq, step=step, inbox=obs[0]))
                        else:
                            acc.bulk(1, 1, outcomes=[(kind,) + obs])
        if last:
            break
        size += 1
        idx += 1
    return acc.result()


def replay(job, case):
    code, curt, mi, authic = job[0], job[1], job[2], job[5]
    if case and case[0] == "clamp":
        return clamp_case(code, curt, mi, int(case[1]), authic)[1]
    if case and case[0] == "clamp-switched":
        return clamp_case(code, curt, mi, int(case[1]), authic, switched=True)[1]
    size, step, seq = decode_case(list(case))
    ctx, viols = setup(code, curt, size, mi, authic)
    if ctx is None or not seq:
        return viols
    return viols + judge(ctx, seq, step)[1]
