"""C16 - no client-sent bytes can make the HTTP server's service loop raise (fault enumeration over inputs)."""
from .. import httpgen, tcpsys, treeguard
from ..enum import Acc
from ..env import fakenet

treeguard()
from hio.core import http  # noqa: E402
from hio.core.http import serving as httpserving  # noqa: E402

PID = "C16"
LEVEL = "fault_enumeration"
ASSUMPTIONS = [
    "kernel replaced by FakeNet; the hostile bytes arrive in one segment (and, for corpus mutations, also split in two), then the peer closes",
    "WSGI application is a trivial well-behaved app; application errors are outside the property",
    "byte strings beyond the enumerated lengths are covered only through single mutations of the message corpus and the targeted shapes",
]
SYMS = [b"\r", b"\n", b" ", b":", b"/", b"H", b"T", b"P", b"1", b".", b"G", b"E", b"0", b";", b"\xff", b"x"]
SIB_REQ = b"GET /sib HTTP/1.1\r\nHost: h\r\n\r\n"


def RULE(tier):
    q = tier == "quick"
    return ("systems: WSGI http.Server, BareServer (each with a victim and a sibling connection) and http.Client (bytes arrive as the "
            "response). Inputs: every byte string of length <= %d, every string of length <= %d over 16 HTTP-significant bytes, every "
            "single mutation (delete / insert / replace at every position with each of the 16 bytes) of %s, and targeted near-valid "
            "shapes (colon without space, non-hex/signed chunk sizes, bad ports / IPv6 in absolute URLs, 70 kB lines, bad status lines, "
            "non-UTF-8 event data), a request-target grammar (6 prefixes x 1-2 of 25 raw and percent-encoded URL delimiters and query shapes), an event-stream field grammar (4 fields x 11 hostile values, plain and chunked), a Content-Type grammar (%d types x %d parameter shapes: empty, missing '=', bare ';', quoted, unknown "
            "codec, ... x 2 bodies) alone and followed by each of %d probe messages on the same keep-alive connection (state left in "
            "the connection's parser by one message must not make the next one raise). Oracle: service() never raises; the sibling's valid request is answered 200; key = (system, hio "
            "call site, exception type)." % (2 if q else 2, 3 if q else 4, "a 24-message corpus" if q else "the full message corpus",
                                           len(CT_TYPES), len(CT_PARAMS), len(PROBE_REQ)))


def EXHAUSTIVE(tier):
    return True


DEEP = b"[" * 3000 + b"]" * 3000        # valid JSON nested deeper than the interpreter's recursion limit
TARGETED_REQ = [
    b"POST /p HTTP/1.1\r\nHost: h\r\nContent-Type: application/json\r\nContent-Length: %d\r\n\r\n" % len(DEEP) + DEEP,
    b"GET / HTTP/1.1\r\nHost:h\r\n\r\n", b"GET / HTTP/1.1\r\nNoColonHere\r\n\r\n", b"GET / HTTP/1.1\r\n: empty\r\n\r\n",
    b"POST / HTTP/1.1\r\nTransfer-Encoding: chunked\r\n\r\nzz\r\nab\r\n0\r\n\r\n",
    b"POST / HTTP/1.1\r\nTransfer-Encoding: chunked\r\n\r\n-1\r\nab\r\n0\r\n\r\n",
    b"POST / HTTP/1.1\r\nTransfer-Encoding: chunked\r\n\r\n2\r\nabXX\r\n0\r\n\r\n",
    b"POST / HTTP/1.1\r\nTransfer-Encoding: chunked\r\n\r\n2;x=y\r\nab\r\n0\r\nT:1\r\n\r\n",
    b"GET http://host:99999/p HTTP/1.1\r\nHost: h\r\n\r\n", b"GET http://host:abc/p HTTP/1.1\r\nHost: h\r\n\r\n",
    b"GET http://[::1/p HTTP/1.1\r\nHost: h\r\n\r\n", b"GET http://[zz]/p HTTP/1.1\r\nHost: h\r\n\r\n",
    b"GET /" + b"a" * 70000 + b" HTTP/1.1\r\nHost: h\r\n\r\n", b"GET / HTTP/1.1\r\nX: " + b"b" * 70000 + b"\r\n\r\n",
    b"GET / HTTP/1.1\r\n" + b"".join(b"H%d: v\r\n" % i for i in range(120)) + b"\r\n",
    b"GET / HTTP/2.0\r\nHost: h\r\n\r\n", b"BREW / HTTP/1.1\r\nHost: h\r\n\r\n", b"GET\r\n\r\n", b"\r\n\r\n", b"GET / HTTP/1.1 extra junk\r\n\r\n",
    b"POST / HTTP/1.1\r\nContent-Length: -5\r\n\r\nabc", b"POST / HTTP/1.1\r\nContent-Length: zz\r\n\r\nabc",
    b"POST / HTTP/1.1\r\nContent-Length: 3\r\nContent-Type: application/json\r\n\r\n\xff\xfe\xfd",
    b"GET /%ff%fe HTTP/1.1\r\nHost: h\r\n\r\n", b"GET /\xff\xfe HTTP/1.1\r\nHost: \xff\r\n\r\n",
    b"GET / HTTP/1.0\r\n\r\n", b"GET / HTTP/1.1\r\nConnection: close\r\n\r\n", b"GET / HTTP/1.1\r\nHost: h\r\n\r\nGET / HTTP/1.0\r\n\r\n",
    b"POST / HTTP/1.1\r\nContent-Length: 2\r\nContent-Type: text/plain; charset=\r\n\r\n\xff\xff",
]
TARGETED_RSP = [
    b"HTTP/1.1 200 OK\r\nContent-Type: application/json\r\nContent-Length: %d\r\n\r\n" % len(DEEP) + DEEP,
    b"HTTP/1.1 200 OK\r\nNoColon\r\n\r\n", b"HTTP/1.1 abc OK\r\n\r\n", b"HTTP/1.1 99 Low\r\n\r\n", b"HTTP/1.1\r\n\r\n", b"ICY 200 OK\r\n\r\n",
    b"HTTP/1.1 100 Continue\r\n\r\nHTTP/1.1 200 OK\r\nContent-Length: 0\r\n\r\n",
    b"HTTP/1.1 200 OK\r\nTransfer-Encoding: chunked\r\n\r\nzz\r\n", b"HTTP/1.1 200 OK\r\nTransfer-Encoding: chunked\r\n\r\n2\r\nabXX\r\n",
    b"HTTP/1.1 200 OK\r\nTransfer-Encoding: chunked\r\n\r\n1;a=b\r\nx\r\n0\r\n\r\n",
    b"HTTP/1.1 200 OK\r\nContent-Type: text/event-stream\r\n\r\ndata: \xff\xfe\n\n", b"HTTP/1.1 200 OK\r\nContent-Type: text/event-stream\r\n\r\n\xff: x\n\n",
    b"HTTP/1.1 200 OK\r\nContent-Type: application/json\r\nContent-Length: 3\r\n\r\n\xff\xfe\xfd",
    b"HTTP/1.1 301 Moved\r\nContent-Length: 0\r\n\r\n", b"HTTP/1.1 301 Moved\r\nLocation: http://[::1/x\r\nContent-Length: 0\r\n\r\n",
    b"HTTP/1.1 302 Found\r\nLocation: http://h:99999/x\r\nContent-Length: 0\r\n\r\n", b"HTTP/1.1 302 Found\r\nLocation: \xff\r\nContent-Length: 0\r\n\r\n",
    b"HTTP/1.1 200 OK\r\nContent-Length: -1\r\n\r\n", b"HTTP/1.1 200 " + b"r" * 70000 + b"\r\n\r\n", b"HTTP/3 200 OK\r\n\r\n",
    b"HTTP/1.1 302 Found\r\nLocation: http://no-such-host.invalid/x\r\nContent-Length: 0\r\n\r\n",
    b"HTTP/1.1 302 Found\r\nLocation: https://no-such-host.invalid/x\r\nContent-Length: 0\r\n\r\n",
    b"HTTP/1.1 302 Found\r\nLocation: http://a..b/x\r\nContent-Length: 0\r\n\r\n", b"HTTP/1.1 302 Found\r\nLocation: //%5Bx/\r\nContent-Length: 0\r\n\r\n",
    b"HTTP/1.1 302 Found\r\nLocation: http://h:0/x\r\nContent-Length: 0\r\n\r\n", b"HTTP/1.1 302 Found\r\nLocation: ?\r\nContent-Length: 0\r\n\r\n",
    b"HTTP/1.1 302 Found\r\nLocation: http://[::1]:6101/x\r\nContent-Length: 0\r\n\r\n", b"HTTP/1.1 302 Found\r\nLocation:\r\nContent-Length: 0\r\n\r\n",
]


# request-target grammar: delimiters of the URL syntax, raw and percent-encoded, after each kind of prefix
TGT_PREFIX = [b"/", b"//", b"http://", b"http://h", b"/a/", b"*"]
TGT_PIECES = [b"%5B", b"[", b"%5D", b"]", b":99999", b":ab", b"%3A99999", b"@", b"%40", b"?", b"%3F", b"#", b"%23", b"%2F%2F", b"%", b"%zz", b"x",
              b"?a=b=c", b"?a==", b"?=", b"?&", b"?a=%3D%3D", b"?a&b", b"?%26=%3D&", b"?a=1&a=2"]


def target_requests():
    for pre in TGT_PREFIX:
        for a in TGT_PIECES:
            yield b"GET " + pre + a + b" HTTP/1.1\r\nHost: h\r\n\r\n"
            for b in TGT_PIECES:
                yield b"GET " + pre + a + b + b"/ HTTP/1.1\r\nHost: h\r\n\r\n"


# Content-Type grammar: every type x every parameter shape (well-formed, empty, missing '=', bare ';', unknown codec, quoted, ...)
CT_TYPES = [b"text/plain", b"application/json", b"text/event-stream", b"application/x-www-form-urlencoded", b"multipart/form-data"]
CT_PARAMS = [b"", b"; charset=utf-8", b"; charset=", b"; charset", b"; utf-8", b"; =", b";", b"; ", b";;", b"; charset = utf-8",
             b'; charset="utf-8"', b"; charset=nonexistent", b"; boundary=xx", b"; a=b; c", b"; a; b=c", b"; charset=utf-8; q",
             b";charset=latin-1", b"; charset=utf-8;"]
CT_BODIES = [b"\xc3\xa9\xff{", b'{"a": 1}', b'{"n": "\\ud800", "e": "\xc3\xa9"}']      # last: valid JSON with an escaped lone surrogate and a non-ASCII letter


def ct_message(side, ti, pi, bi):
    t, prm, body = CT_TYPES[ti], CT_PARAMS[pi], CT_BODIES[bi]
    if t == b"text/event-stream":
        body = b"data: " + body + b"\n\n"
    if side == "rsp":
        return b"HTTP/1.1 200 OK\r\nContent-Type: " + t + prm + b"\r\nContent-Length: %d\r\n\r\n" % len(body) + body
    return b"POST /p HTTP/1.1\r\nHost: h\r\nContent-Type: " + t + prm + b"\r\nContent-Length: %d\r\n\r\n" % len(body) + body


# second message on the same keep-alive connection (what the first one left behind in the connection's parser must not matter)
PROBE_REQ = [b"GET /a%20b%C3%A9?x=%C3%A9 HTTP/1.1\r\nHost: h\r\n\r\n", b"GET /%ff HTTP/1.1\r\nHost: h\r\n\r\n", b"GET / HTTP/1.1\r\nHost: h\r\n\r\n",
             b"POST /j HTTP/1.1\r\nHost: h\r\nContent-Type: application/json\r\nContent-Length: 7\r\n\r\n{\"a\":1}",
             b"POST /c HTTP/1.1\r\nHost: h\r\nTransfer-Encoding: chunked\r\n\r\n2\r\n\xc3\xa9\r\n0\r\n\r\n"]
PROBE_RSP = [b"HTTP/1.1 200 OK\r\nContent-Length: 2\r\n\r\n\xc3\xa9", b"HTTP/1.1 200 OK\r\nContent-Type: application/json\r\nContent-Length: 7\r\n\r\n{\"a\":1}",
             b"HTTP/1.1 200 OK\r\nContent-Type: text/plain; charset=utf-8\r\nContent-Length: 2\r\n\r\n\xff\xfe",
             b"HTTP/1.1 200 OK\r\nTransfer-Encoding: chunked\r\n\r\n2\r\n\xc3\xa9\r\n0\r\n\r\n",
             b"HTTP/1.1 301 Moved\r\nLocation: /%ff\r\nContent-Length: 0\r\n\r\n"]


# event-stream fields with values that look numeric / textual to one conversion and not to another
SSE_FIELDS = [b"retry", b"id", b"event", b"data"]
SSE_VALUES = [b"\xc2\xb2", b"\xd9\xa1\xd9\xa2", b"1_0", b"+5", b" 5", b"-1", b"1e3", b"", b"\xff", b"9" * 200, b"\xe2\x85\xa7"]


def sse_responses():
    for f in SSE_FIELDS:
        for val in SSE_VALUES:
            body = f + b": " + val + b"\ndata: x\n\n"
            yield b"HTTP/1.1 200 OK\r\nContent-Type: text/event-stream\r\n\r\n" + body
            yield (b"HTTP/1.1 200 OK\r\nContent-Type: text/event-stream\r\nTransfer-Encoding: chunked\r\n\r\n" +
                   b"%x\r\n" % len(body) + body + b"\r\n0\r\n\r\n")


def corpus(tier):
    reqs = httpgen.request_corpus(tier != "quick")
    rsps = httpgen.response_corpus(tier != "quick")
    if tier == "quick":
        want_r = ("req-crlf-GET-1.1-0-none", "req-lf-GET-1.0-1-none", "req-crlf-POST-1.1-0-cl5", "req-crlf-POST-1.1-0-ch0", "req-crlf-POST-1.1-0-ch0et",
                  "req-lf-POST-1.1-0-ch1", "req-crlf-POST-1.1-2-cl1", "req-crlf-GET-1.1-2-none", "req-lf-POST-1.1-1-cl0", "req-crlf-POST-1.1-0-ch0e",
                  "req-crlf-POST-1.1-0-ch0t", "req-lf-GET-1.1-0-none")
        want_s = ("rsp-crlf-200-0-cl5", "rsp-lf-200-0-cl0", "rsp-crlf-200-0-ch0", "rsp-crlf-200-0-ch0et", "rsp-crlf-200-0-close", "rsp-crlf-204-0-none",
                  "rsp-crlf-200-100-0-cl5", "rsp-lf-404-1-ch1", "rsp-crlf-404-0-cl0", "rsp-lf-200-0-close", "rsp-crlf-200-0-ch0e", "rsp-crlf-200-0-ch0t")
        reqs = [m for m in reqs if m[0] in want_r]
        rsps = [m for m in rsps if m[0] in want_s]
    return [m[1] for m in reqs], [m[1] for m in rsps]


def jobs(tier):
    js = []
    for sysname in ("wsgi", "bare", "client"):
        for b0 in range(0, 256, 16):
            js.append((sysname, "short", b0, b0 + 16))
        for s in range(len(SYMS)):
            js.append((sysname, "alpha", s))
        reqs, rsps = corpus(tier)
        msgs = rsps if sysname == "client" else reqs
        for i in range(len(msgs)):
            js.append((sysname, "mut", i))
        js.append((sysname, "targeted"))
        for ti in range(len(CT_TYPES)):
            js.append((sysname, "ctype", ti))
        if sysname != "client":
            js.append((sysname, "target"))
        else:
            js.append((sysname, "sse"))
    return js


def app(environ, start_response):
    body = environ["wsgi.input"].read()
    start_response("200 OK", [("Content-Type", "text/plain"), ("Content-Length", str(len(body) + 2))])
    return [b"ok", body]


def run_server(sysname, frags):
    """returns (violations, obs)"""
    net = fakenet.Net()
    v = []
    with fakenet.Installed(net):
        if sysname == "wsgi":
            server = http.Server(host="127.0.0.1", port=6101, app=app)
        else:
            server = httpserving.BareServer(host="127.0.0.1", port=6101)
        server.reopen()
        victim = net.socket()
        victim.owner = "raw"
        victim.connect_ex(("127.0.0.1", 6101))
        sib = net.socket()
        sib.owner = "raw"
        sib.connect_ex(("127.0.0.1", 6101))
        escaped = None

        def svc():
            nonlocal escaped
            try:
                server.service()
                return True
            except BaseException as ex:
                escaped = (tcpsys.site_of(ex), type(ex).__name__, str(ex)[:60])
                return False
        ok = svc()
        for i, f in enumerate(frags):
            if not ok:
                break
            try:
                victim.send(f)
            except OSError:
                pass
            if i == 0:
                sib.send(SIB_REQ)
            ok = svc() and svc()
        for _ in range(3):
            if ok:
                ok = svc()
        if ok:
            victim.close()
            for _ in range(3):
                if ok:
                    ok = svc()
        got = bytes(sib.rx)
        if escaped:
            v.append(("escape:%s:%s:%s" % (sysname, escaped[0], escaped[1]), "%s.service() raised %s at %s: %s ; input %r" % (
                sysname, escaped[1], escaped[0], escaped[2], b"".join(frags)[:80])))
        elif not got.startswith(b"HTTP/1.1 200"):
            v.append(("sibling-not-served:%s" % sysname, "sibling got %r after hostile input %r" % (got[:40], b"".join(frags)[:80])))
        obs = (escaped[:2] if escaped else None, got[:12], bytes(victim.rx)[:12] if not victim.closed else b"")
    return v, obs


def run_client(frags, nreq=1):
    net = fakenet.Net()
    v = []
    with fakenet.Installed(net):
        ls = net.socket()
        ls.owner = "raw"
        ls.bind(("127.0.0.1", 6101))
        ls.listen(5)
        client = http.Client(hostname="127.0.0.1", port=6101)
        client.reopen()
        for k in range(nreq):
            client.request(method="GET", path="/x%d" % k)
        escaped = None

        def svc():
            nonlocal escaped
            try:
                client.service()
                return True
            except BaseException as ex:
                escaped = (tcpsys.site_of(ex), type(ex).__name__, str(ex)[:60])
                return False
        ok = svc() and svc()
        peer = None
        try:
            peer, _ = ls.accept()
        except OSError:
            pass
        if peer is not None:
            for f in frags:
                if not ok:
                    break
                try:
                    peer.recv(65536)
                except OSError:
                    pass
                try:
                    peer.send(f)
                except OSError:
                    pass
                ok = svc() and svc()
            if ok:
                peer.close()
                for _ in range(3):
                    if ok:
                        ok = svc()
        if escaped:
            v.append(("escape:client:%s:%s" % (escaped[0], escaped[1]), "client.service() raised %s at %s: %s ; response bytes %r" % (
                escaped[1], escaped[0], escaped[2], b"".join(frags)[:80])))
        resp = [(r.get("status"), r.get("errored")) for r in client.responses]
        obs = (escaped[:2] if escaped else None, tuple(resp))
    return v, obs


def run_case(sysname, data, split=None):
    frags = [data] if not split or split <= 0 or split >= len(data) else [data[:split], data[split:]]
    if sysname == "client":
        return run_client(frags)
    return run_server(sysname, frags)


def run_pair(sysname, ti, pi, bi, qi, together):
    """a Content-Type shaped message followed by a probe message on the same keep-alive connection"""
    side = "rsp" if sysname == "client" else "req"
    first = ct_message(side, ti, pi, bi)
    second = (PROBE_RSP if sysname == "client" else PROBE_REQ)[qi]
    if sysname == "client":
        return run_client([first, second], nreq=2)      # the second response can only follow the second request
    return run_server(sysname, [first + second] if together else [first, second])


def mutations(msg):
    n = len(msg)
    for i in range(n):
        yield msg[:i] + msg[i + 1:]
    for i in range(n + 1):
        for s in SYMS:
            yield msg[:i] + s + msg[i:]
    for i in range(n):
        for s in SYMS:
            if msg[i:i + 1] != s:
                yield msg[:i] + s + msg[i + 1:]


def run_job(job, tier, seed):
    acc = Acc(job)
    sysname, kind = job[0], job[1]
    cnt = 0

    def do(data, split=None):
        nonlocal cnt
        viols, obs = run_case(sysname, data, split)
        cnt += 1
        case = [sysname, list(data) if len(data) < 400 else ["big", len(data), list(data[:40])], split]
        if len(data) >= 400:
            # big inputs are regenerated from the targeted tables on replay
            case = [sysname, ["targeted", (TARGETED_RSP if sysname == "client" else TARGETED_REQ).index(data)], split]
        if viols or cnt % 1999 == 1:
            acc.case(case, obs, viols, sample=dict(system=sysname, input=repr(data[:60]), observed=repr(obs)))
        else:
            acc.bulk(1, 1)
            acc.r.obs.add(hash(obs))
    if kind == "short":
        for b0 in range(job[2], job[3]):
            do(bytes([b0]))
            for b1 in range(256):
                do(bytes([b0, b1]))
    elif kind == "alpha":
        maxlen = 3 if tier == "quick" else 4
        stack = [SYMS[job[2]]]
        while stack:
            s = stack.pop()
            do(s)
            if len(s) < maxlen:
                stack.extend(s + c for c in SYMS)
    elif kind == "mut":
        reqs, rsps = corpus(tier)
        msg = (rsps if sysname == "client" else reqs)[job[2]]
        do(msg)
        for k, m in enumerate(mutations(msg)):
            do(m)
            if k % 7 == 0:
                do(m, split=len(m) // 2)
    elif kind == "target":
        for data in target_requests():
            do(data)
    elif kind == "sse":
        for data in sse_responses():
            do(data)
            do(data, split=len(data) - 4)
        # CRLF and bare-CR line ends, the stream cut at every position (also between a CR and its LF, after a final CR)
        head = b"HTTP/1.1 200 OK\r\nContent-Type: text/event-stream\r\n\r\n"
        for eol in (b"\r\n", b"\r"):
            body = b"id: 1" + eol + b"data: a" + eol + eol + b"data: b" + eol + eol
            for k in range(len(head), len(head) + len(body)):
                do(head + body, split=k)
    elif kind == "ctype":
        ti = job[2]
        side = "rsp" if sysname == "client" else "req"
        for pi in range(len(CT_PARAMS)):
            for bi in range(len(CT_BODIES)):
                data = ct_message(side, ti, pi, bi)
                do(data)
                do(data, split=len(data) - 3)
                for qi in range(len(PROBE_REQ)):
                    for together in ((0,) if sysname == "client" else (0, 1)):
                        viols, obs = run_pair(sysname, ti, pi, bi, qi, together)
                        viols = [(k + ":second-message", m) for k, m in viols]
                        cnt += 1
                        acc.case([sysname, ["pair", ti, pi, bi, qi, together], None], obs, viols,
                                 sample=dict(system=sysname, first=repr(data[:70]), probe=qi, observed=repr(obs))) if (viols or cnt % 97 == 1) else acc.bulk(1, 1)
    else:
        for data in (TARGETED_RSP if sysname == "client" else TARGETED_REQ):
            do(data)
            do(data, split=len(data) // 2)
            do(data, split=min(len(data) - 1, 20))
    return acc.result()


def replay(job, case):
    sysname, data, split = case
    if data and data[0] == "pair":
        return [(k + ":second-message", m) for k, m in run_pair(sysname, *data[1:])[0]]
    if data and data[0] == "targeted":
        data = (TARGETED_RSP if sysname == "client" else TARGETED_REQ)[data[1]]
    else:
        data = bytes(data)
    return run_case(sysname, data, split)[0]
