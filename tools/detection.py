#!/usr/bin/env python3
"""Re-run every seeded change under /verif/seeded against the checks listed in its meta.json and write DETECTION.md.
Applies each patch to /repo, runs the checks (quick tier), reverts. /repo must be clean."""
import glob, json, os, subprocess, sys, time

V = "/verif"


def sh(cmd, **kw):
    return subprocess.run(cmd, shell=True, capture_output=True, text=True, **kw)


def main():
    if sh("git -C /repo status --porcelain").stdout.strip():
        print("repo not clean"); return 2
    only = sys.argv[1:]
    rows = []
    for d in sorted(glob.glob(os.path.join(V, "seeded", "*"))):
        name = os.path.basename(d)
        if only and not any(name.startswith(o) for o in only):
            continue
        meta = json.load(open(os.path.join(d, "meta.json")))
        patch = os.path.join(d, "patch.diff")
        demo = os.path.join(d, "demo.py")
        env = "PYTHONWARNINGS=ignore PYTHONPATH=/repo/src"
        hasdemo = os.path.exists(demo)
        clean = sh("%s timeout 300 /venv/bin/python %s" % (env, demo)).returncode if hasdemo else "-"
        if sh("git -C /repo apply " + patch).returncode != 0:
            rows.append((name, meta, "patch does not apply to the current tree", {}, clean, None)); continue
        try:
            dirty = sh("%s timeout 300 /venv/bin/python %s" % (env, demo)).returncode if hasdemo else "-"
            res = {}
            for c in meta.get("detected_by", []) or [meta["breaks"]]:
                t0 = time.time()
                ev = os.path.join(V, "evidence", c + ".json")       # evidence files describe the unchanged tree: put them back
                keep = open(ev, "rb").read() if os.path.exists(ev) else None
                r = sh("cd /verif && ./check %s --tier quick" % c)
                if keep is not None:
                    open(ev, "wb").write(keep)
                elif os.path.exists(ev):
                    os.remove(ev)
                keys = [l.split("key=")[1].split()[0] for l in r.stdout.splitlines() if l.startswith("VIOLATION") and "key=" in l]
                res[c] = (r.returncode, keys[:2], round(time.time() - t0, 1))
        finally:
            sh("git -C /repo checkout -- .")
        rows.append((name, meta, None, res, clean, dirty))
        print(name, clean, dirty, res, flush=True)
    sh("rm -rf /tmp/hio* /root/hio")
    with open(os.path.join(V, "DETECTION.md"), "w") as f:
        f.write("# Seeded changes and the checks that catch them\n\n"
                "Each row: a change to ioflo/hio that breaks one property (written by an independent sub-agent from the text of the property only, "
                "with a demo script, or by hand without one: demo column '-'; see DESIGN.md section 14), re-verified here: the demo exits 0 on the clean tree and non-zero with the patch; "
                "the patch is applied to /repo, the listed checks run at quick tier, the patch is reverted. "
                "`exit 1` = the check reports a VIOLATION. Regenerate with `python3 tools/detection.py`.\n\n"
                "| Seeded change | Breaks | Needs | demo clean/patched | Check: exit, first keys, seconds | Note |\n|---|---|---|---|---|---|\n")
        for name, meta, err, res, clean, dirty in rows:
            checks = err or "; ".join("%s: exit %s %s %ss" % (c, v[0], ",".join(v[1]) or "-", v[2]) for c, v in res.items())
            f.write("| %s | %s | %s | %s/%s | %s | %s |\n" % (name, meta.get("breaks"), (meta.get("needs") or "").replace("|", "/").replace("\n", " ")[:220],
                                                            clean, dirty, checks, (meta.get("note") or "").replace("|", "/")))
    bad = [r[0] for r in rows if r[3] and not any(v[0] == 1 for v in r[3].values())]
    print("rows", len(rows), "undetected", bad)
    return 0


if __name__ == "__main__":
    sys.exit(main())
