"""C27 - name/address registry stays a one-to-one bijection (E2: full reachable state graph)."""
from .. import treeguard
from ..enum import Acc, bfs

treeguard()
from hio.help import naming  # noqa: E402
from hio import hioing  # noqa: E402

PID = "C27"
LEVEL = "model_checking"
ASSUMPTIONS = ["names from {a,b,c,'',None}, addresses from {x,y,z,'',None}; registry driven through its public methods only"]
NAMES = ["a", "b", "ab", "", None]        # "a" and "b" are proper substrings of "ab"
ADDRS = ["x", "y", "xy", "", None]        # "x" and "y" are proper substrings of "xy" (nested paths)


def RULE(tier):
    return ("explicit-state BFS from the empty registry and from every constructor-seeded registry over ALL operations "
            "add/rem(name?,addr?)/changeAddrAtName/changeNameAtAddr/clear with every (name, addr) pair of the small domains; "
            "state = the pair of mappings; the graph is closed (frontier empty). Invariants in every state: the two mappings "
            "are exact inverses and injective; a call that raised (also TypeError for an address that cannot be a dict key) or returned False left both unchanged; a call that returned "
            "True changed exactly what a dict-pair model says. Plus every constructor call Namer(entries=[...]) with <= 3 entries over 16 "
            "(name, addr) pairs (repeated names, shared addresses, empties): it raises exactly when adding the entries one by one is "
            "rejected, else the mappings are the model's.")


def EXHAUSTIVE(tier):
    return True


OPS = []
for n in NAMES:
    for a in ADDRS:
        OPS.append(("add", n, a))
        OPS.append(("rem", n, a))
        OPS.append(("chaddr", n, a))
        OPS.append(("chname", n, a))
OPS.append(("clear", None, None))
UNHASHABLE = ["h", 1]      # an address as it comes out of JSON: usable in comparisons, not as a key of the inverse mapping
for n in ("a", "ab", ""):
    for kind in ("add", "rem", "chaddr", "chname"):
        OPS.append((kind, n, UNHASHABLE))

SEEDS = [(), (("a", "x"),), (("a", "x"), ("b", "y")), (("a", "x"), ("b", "y"), ("ab", "xy"))]


def jobs(tier):
    return [("seed", i) for i in range(len(SEEDS))] + [("ctor", k) for k in range(4)]


CTOR_PAIRS = [(n, a) for n in ("a", "b", "ab", "") for a in ("x", "y", "xy", "")]


def check_ctor(entries):
    """Namer(entries=[...]) is the same as adding the entries one by one: if one of the additions is rejected the constructor
    raises; otherwise the two mappings are the model's and inverse to one another"""
    fwd, rejected = {}, False
    for n, a in entries:
        res, fwd = model(fwd, ("add", n, a))
        if res == "err":
            rejected = True
            break
    try:
        nm = naming.Namer(entries=[tuple(e) for e in entries])
    except hioing.NamerError:
        return [] if rejected else [("ctor:rejects-valid-entries", "Namer(entries=%r) raised NamerError, adding them one by one is fine" % (entries,))]
    except Exception as ex:
        return [("raises:%s:ctor" % type(ex).__name__, "Namer(entries=%r) raised %r" % (entries, ex))]
    f, b = nm.addrByName, nm.nameByAddr
    v = []
    if {v_: k for k, v_ in f.items()} != b or len(set(f.values())) != len(f) or {v_: k for k, v_ in b.items()} != f:
        v.append(("not-inverse:ctor", "Namer(entries=%r): addrByName=%r nameByAddr=%r" % (entries, f, b)))
    if rejected:
        v.append(("ctor:accepts-rejected-entry", "Namer(entries=%r) was built although adding the entries one by one is rejected; "
                  "addrByName=%r" % (entries, f)))
    elif f != fwd:
        v.append(("content:ctor", "Namer(entries=%r): addrByName=%r, model %r" % (entries, f, fwd)))
    return v


def apply(nm, op):
    kind, n, a = op
    if kind == "add":
        return nm.addNameAddr(name=n, addr=a)
    if kind == "rem":
        return nm.remNameAddr(name=n, addr=a)
    if kind == "chaddr":
        return nm.changeAddrAtName(name=n, addr=a)
    if kind == "chname":
        return nm.changeNameAtAddr(addr=a, name=n)
    if kind == "clear":
        return nm.clearAllNameAddr()


def model(fwd, op):
    """dict model: returns (result, new_fwd); result 'err' for rejected"""
    kind, n, a = op
    fwd = dict(fwd)
    inv = {v: k for k, v in fwd.items() if not isinstance(v, list)}     # (a broken implementation may have let a list in)
    if kind == "clear":
        return None, {}
    if kind == "add":
        if not n or not a:
            return "err", fwd
        if n in fwd:
            return (False, fwd) if fwd[n] == a else ("err", fwd)
        if a in inv:
            return "err", fwd
        fwd[n] = a
        return True, fwd
    if kind == "rem":
        if n:
            if n not in fwd or (a and fwd[n] != a):
                return False, fwd
            del fwd[n]
            return True, fwd
        if a:
            if a not in inv:
                return False, fwd
            del fwd[inv[a]]
            return True, fwd
        return False, fwd
    if kind == "chaddr":
        if not n or not a:
            return "err", fwd
        if n not in fwd or fwd[n] == a:
            return False, fwd
        if a in inv:
            return "err", fwd
        fwd[n] = a
        return True, fwd
    if kind == "chname":
        if not n or not a:
            return "err", fwd
        if a not in inv or inv[a] == n:
            return False, fwd
        if n in fwd:
            return "err", fwd
        del fwd[inv[a]]
        fwd[n] = a
        return True, fwd


def make_run(seed):
    def run(hist):
        nm = naming.Namer(entries=list(seed)) if seed else naming.Namer()
        fwd = dict(seed)
        viols = []
        for op in hist:
            before = (nm.addrByName, nm.nameByAddr)
            try:
                res = apply(nm, tuple(op))
            except hioing.NamerError:
                res = "err"
            except TypeError as ex:
                if isinstance(op[2], list):
                    res = "err"    # an address that cannot be a key is refused; like every refusal it must change nothing
                else:
                    res = "exc:TypeError"
                    viols.append(("raises:TypeError:%s" % op[0], "%r raised %r after %r" % (op, ex, hist[:-1])))
            except Exception as ex:
                res = "exc:" + type(ex).__name__
                viols.append(("raises:%s:%s" % (type(ex).__name__, op[0]), "%r raised %r after %r" % (op, ex, hist[:-1])))
            for probe in ("a", "b", "ab", "zz", "x", "y", "xy"):     # looking something up (registered or not) changes nothing
                nm.getAddr(probe)
                nm.getName(probe)
            after = (nm.addrByName, nm.nameByAddr)
            if isinstance(op[2], list):
                mres, fwd2 = (res if res in ("err", False) else "err"), dict(fwd)     # refused one way or the other, nothing changes
            else:
                mres, fwd2 = model(fwd, tuple(op))
            if res in ("err", False) and after != before:
                viols.append(("rejected-op-mutates:%s:%s" % (op[0], res), "%r returned %r but changed %r -> %r" % (op, res, before, after)))
            f, b = after
            try:
                broken = {v: k for k, v in f.items()} != b or len(set(f.values())) != len(f) or {v: k for k, v in b.items()} != f
            except TypeError:          # a value that cannot be a key sits in one of the mappings: they cannot be inverses
                broken = True
            if broken:
                viols.append(("not-inverse:" + op[0], "after %r: addrByName=%r nameByAddr=%r" % (hist, f, b)))
            if res != mres and not str(res).startswith("exc"):
                viols.append(("result:%s:%r-vs-%r" % (op[0], res, mres), "%r returned %r, model %r, history %r" % (op, res, mres, hist)))
            if f != fwd2:
                viols.append(("content:" + op[0], "after %r addrByName=%r, model %r" % (hist, f, fwd2)))
            # getters agree
            for k, v in f.items():
                if isinstance(v, list):
                    continue
                if nm.getAddr(k) != v or nm.getName(v) != k:
                    viols.append(("getter", "getAddr/getName disagree with mappings after %r" % (hist,)))
            if nm.countNameAddr != len(f):
                viols.append(("count", "countNameAddr %r vs %r" % (nm.countNameAddr, len(f))))
            fwd = dict(f)  # keep following the implementation
        key = (tuple(sorted((repr(k), repr(v)) for k, v in nm.addrByName.items())), tuple(sorted((repr(k), repr(v)) for k, v in nm.nameByAddr.items())))
        return key, viols, key
    return run


def run_job(job, tier, seed):
    acc = Acc(job)
    if job[0] == "ctor":
        import itertools
        cnt = 0
        for n in (1, 2, 3):
            for combo in itertools.product(range(len(CTOR_PAIRS)), repeat=n):
                cnt += 1
                if cnt % 4 != job[1]:
                    continue
                entries = [CTOR_PAIRS[i] for i in combo]
                viols = check_ctor(entries)
                acc.case(["ctor", list(combo)], "ok" if not viols else viols[0][0], viols) if (viols or cnt % 97 == 1) else acc.bulk(1, 1)
        acc.r.obs.add(hash("ctor"))
        return acc.result()
    run = make_run(SEEDS[job[1]])
    bfs(acc, run, lambda hist, key: OPS, maxdepth=12)
    return acc.result()


def replay(job, hist):
    if hist and hist[0] == "ctor":
        return check_ctor([CTOR_PAIRS[int(i)] for i in hist[1]])
    run = make_run(SEEDS[tojob_int(job[1])])
    return run([tuple(x) for x in hist])[1]


def tojob_int(x):
    return int(x)


def finish(total, tier):
    return dict(closed_graph=(total.extra.get("bfs_frontier_left", 0) == 0),
                exhaustive=(total.extra.get("bfs_frontier_left", 0) == 0))
