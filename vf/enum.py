"""Helpers for E3 (bounded-exhaustive input enumeration) and E2 (explicit-state BFS) checks."""
from .explore import JobResult, h64, _short


class Acc:
    """Accumulates cases into a JobResult (same shape the E1 explorer produces)."""

    def __init__(self, job, want_samples=2):
        self.r = JobResult(job)
        self.want = want_samples

    def case(self, case, obs, viols=(), nontrivial=True, sample=None, hash_obs=True):
        r = self.r
        r.executions += 1
        if hash_obs:
            oh = h64(obs)
            if oh not in r.obs:
                r.obs.add(oh)
                if nontrivial:
                    r.nontrivial += 1
        elif nontrivial:
            r.nontrivial += 1
        for key, msg in viols:
            r.add_violation(key, msg, self.r.job, case, _size(case))
        if len(r.samples) < self.want:
            r.samples.append(dict(case=_short(case), observed=_short(sample if sample is not None else obs)))

    def bulk(self, n, distinct, outcomes=()):
        """n cases enumerated without per-case bookkeeping; `distinct` of them distinct and non-trivial by construction"""
        self.r.executions += n
        self.r.nontrivial += distinct
        for o in outcomes:
            self.r.obs.add(h64(o))

    def state(self, key):
        self.r.states.add(h64(key))

    def edge(self, a, ev, b):
        self.r.transitions.add((h64(a), h64(ev), h64(b)))

    def viol(self, key, msg, case):
        self.r.add_violation(key, msg, self.r.job, case, _size(case))

    def extra(self, **kw):
        for k, v in kw.items():
            self.r.extra[k] = self.r.extra.get(k, 0) + v if isinstance(v, (int, float)) else v

    def result(self):
        return self.r


def _size(case):
    try:
        return len(case)
    except TypeError:
        return 0


def bfs(acc, run, events, maxdepth, first=None):
    """Explicit-state BFS over event histories.

    run(hist) -> (key, viols, obs): executes hist on fresh real objects (with the reference model in
    lock step), returns the canonical key of the reached state, violations, and an observation.
    events(hist, key) -> iterable of events enabled after hist.
    States are deduplicated by key; every (state, event) pair of every visited state up to maxdepth is
    executed once.  `first` restricts depth-1 events (sharding)."""
    k0, v0, o0 = run([])
    if v0 and (first is None or first[0] == 0):      # the initial state is judged too (by one shard)
        acc.case([], o0, v0, nontrivial=True)
    acc.state(k0)
    seen = {k0}
    frontier = [([], k0)]
    maxd = 0
    for depth in range(maxdepth):
        nxt = []
        for hist, key in frontier:
            evs = list(events(hist, key))
            if depth == 0 and first is not None:
                evs = [e for i, e in enumerate(evs) if i % first[1] == first[0]]
            for ev in evs:
                h2 = hist + [ev]
                k2, viols, obs = run(h2)
                acc.case(h2, obs, viols, nontrivial=True)
                acc.edge(key, ev, k2)
                if k2 not in seen:
                    seen.add(k2)
                    acc.state(k2)
                    nxt.append((h2, k2))
                    maxd = depth + 1
        frontier = nxt
        if not frontier:
            break
    acc.r.extra["bfs_max_depth"] = max(acc.r.extra.get("bfs_max_depth", 0), maxd) if False else maxd
    acc.r.extra["bfs_frontier_left"] = len(frontier)
    return seen
