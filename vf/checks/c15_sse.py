"""C15 - server-sent events are delivered exactly regardless of line endings and splits."""
from .. import httpgen
from ..enum import Acc
from ..ref import sse as refsse

PID = "C15"
LEVEL = "model_checking"
ASSUMPTIONS = [
    "reference = WHATWG event-stream interpretation algorithm applied to the whole byte string (vf/ref/sse.py)",
    "streams end with a complete event (blank line); no BOM; ids without NUL; event id None and '' are identified",
    "delivered as a close-delimited text/event-stream body and inside chunked transfer coding (chunk boundaries = fragment "
    "boundaries, and fully chunk-per-byte)",
]

EOLS = [b"\r\n", b"\n", b"\r"]
SHAPES = [
    ["data: a"], ["data: a", "data: b"], ["id: 1", "data: a"], ["event: n", "data: a"], ["id: 1", "event: n", "data: a", "data: b"],
    ["id", "data: a"], ["data:"], ["retry: 5000", "data: a"], ["data"], ["data: a", "data:"], [": c", "data: a"], ["data:  x"], ["event: n"],
    ["id: 2", "retry: 70", "data: é"], ["data: a", ": c", "data: b"], ["foo: bar", "data: a"], ["id:", "retry: x", "data: a"],
]
HEAD = b"HTTP/1.1 200 OK\r\nContent-Type: text/event-stream\r\n"


def RULE(tier):
    return ("streams of 1-%d events built from %d event shapes (id, event, 1-2 data lines incl. empty and colon-less, retry, comment, "
            "unknown field); line terminators: every assignment of CRLF/LF/CR per line for single events, uniform and every single "
            "deviation from uniform for multi-event streams; delivery: close-delimited and chunked, every partition with <= %d cuts "
            "(single events) / <= 1 cut (multi) and byte-by-byte. Oracle: Respondent.events/.leid/.retry equal the WHATWG reference "
            "parser's dispatched events, last id, retry. One case = (stream, terminators, framing, partition)."
            % ((2, len(SHAPES), 2) if tier == "quick" else (3, len(SHAPES), 3)))


def EXHAUSTIVE(tier):
    return True


def jobs(tier):
    js = [("one", i) for i in range(len(SHAPES))]
    # quick: the first 8 shapes squared, plus every remaining shape (blocks that dispatch nothing, reset the id, ...) followed by
    # a plain unnamed event and by a named one: state left behind by one block must not leak into the next event
    pairs = [(i, j) for i in range(len(SHAPES)) for j in range(len(SHAPES)) if (tier != "quick" or (i < 8 and j < 8) or (i >= 8 and j in (0, 3)))]
    js += [("two", i, j) for i, j in pairs]
    if tier != "quick":
        js += [("three", i, j, k) for i in range(5) for j in range(5, 9) for k in (0, 2, 12)]
    return js


def assignments_all(n):
    if n == 0:
        yield ()
        return
    for rest in assignments_all(n - 1):
        for e in range(3):
            yield rest + (e,)


def assignments_near_uniform(n):
    seen = set()
    for u in range(3):
        base = (u,) * n
        if base not in seen:
            seen.add(base)
            yield base
        for i in range(n):
            for d in range(3):
                a = base[:i] + (d,) + base[i + 1:]
                if a not in seen:
                    seen.add(a)
                    yield a


def build(shapes, assign):
    lines = []
    for sh in shapes:
        lines.extend(sh)
        lines.append("")
    out = bytearray()
    for ln, e in zip(lines, assign):
        out += ln.encode("utf-8") + EOLS[e]
    return bytes(out), len(lines)


def deliver(stream, cuts, chunked):
    """returns (events, leid, retry, exc) observed from a real Respondent"""
    frags = []
    pos = 0
    for c in list(cuts) + [len(stream)]:
        frags.append(stream[pos:c])
        pos = c
    if chunked:
        wire = [HEAD + b"Transfer-Encoding: chunked\r\n\r\n"]
        for f in frags:
            if f:
                wire.append(b"%x\r\n" % len(f) + f + b"\r\n")
        wire.append(b"0\r\n\r\n")
        res, left, exc = httpgen.drive("rsp", wire, close_at_end=False)
    else:
        wire = [HEAD + b"\r\n"] + frags
        res, left, exc = httpgen.drive("rsp", wire, close_at_end=True)
    if exc:
        return None, None, None, exc
    snap = [m for m in res if m[0] == "rsp"] or [m[1:] for m in res if m[0] == "partial"]
    if not snap:
        return [], None, None, ("no-result", "")
    m = snap[-1]
    return list(m[16]), m[17], m[18], None


def norm_events(evs):
    return [((i or ""), n, d) for i, n, d in evs]


def check(shapes_idx, assign, cuts, chunked):
    stream, nlines = build([SHAPES[i] for i in shapes_idx], assign)
    want_ev, want_id, want_retry = refsse.parse(stream)
    evs, leid, retry, exc = deliver(stream, cuts, chunked)
    term = "uniform-" + ["crlf", "lf", "cr"][assign[0]] if len(set(assign)) == 1 else "mixed"
    frag = "oneshot" if not cuts else ("bytewise" if len(cuts) == len(stream) - 1 else "cut")
    ctx = "%s:%s" % (term, "oneshot" if frag == "oneshot" else "fragmented")
    if exc:
        return [("sse-raises:%s:%s" % (exc[0], ctx), "stream %r raised %r" % (stream, exc))]
    v = []
    got = norm_events(evs)
    if got != want_ev:
        kind = "missing" if len(got) < len(want_ev) else "extra" if len(got) > len(want_ev) else "content"
        emptydata = any(d == "" for _, _, d in want_ev) and [e for e in want_ev if e[2] != ""] == got
        if emptydata:
            kind = "empty-data-not-dispatched"
        v.append(("sse-events:%s:%s" % (kind, ctx), "stream %r cuts %s: events %r, reference %r" % (stream, list(cuts)[:6], got, want_ev)))
    else:
        if (leid or "") != want_id:
            v.append(("sse-leid:%s" % ctx, "stream %r: leid %r, reference %r" % (stream, leid, want_id)))
        if retry != (want_retry if want_retry is not None else 100):
            v.append(("sse-retry:%s" % ctx, "stream %r: retry %r, reference %r" % (stream, retry, want_retry)))
    return v


def run_job(job, tier, seed):
    acc = Acc(job)
    idx = tuple(job[1:])
    nlines = sum(len(SHAPES[i]) + 1 for i in idx)
    maxcuts = (2 if tier == "quick" else 3) if len(idx) == 1 else 1
    assigns = assignments_all(nlines) if len(idx) == 1 else assignments_near_uniform(nlines)
    cnt = 0
    for assign in assigns:
        stream, _ = build([SHAPES[i] for i in idx], assign)
        n = len(stream)
        cutsets = [()]
        cutsets += [(a,) for a in range(1, n)]
        if maxcuts >= 2:
            cutsets += [(a, b) for a in range(1, n) for b in range(a + 1, n)]
        if maxcuts >= 3 and n <= 22:
            cutsets += [(a, b, c) for a in range(1, n) for b in range(a + 1, n) for c in range(b + 1, n)]
        cutsets.append(tuple(range(1, n)))
        for cuts in cutsets:
            for chunked in (False, True):
                viols = check(idx, assign, cuts, chunked)
                cnt += 1
                if viols or cnt % 4999 == 1:
                    acc.case([list(idx), list(assign), list(cuts), chunked], "ok" if not viols else viols[0][0], viols,
                             sample=dict(stream=repr(stream), cuts=list(cuts)[:8], chunked=chunked, reference=repr(refsse.parse(stream))))
                else:
                    acc.bulk(1, 1)
    acc.r.obs.add(hash(idx))
    return acc.result()


def replay(job, case):
    idx, assign, cuts, chunked = case
    return check(tuple(idx), tuple(assign), tuple(cuts), bool(chunked))
