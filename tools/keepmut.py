#!/usr/bin/env python3
"""keepmut.py <PID> <k> <name> <checks-that-catch,comma> [note]  : file a confirmed seeded change under /verif/seeded/"""
import json, os, shutil, sys
pid, k, name, caught = sys.argv[1:5]
note = sys.argv[5] if len(sys.argv) > 5 else ""
src = "/tmp/mut_%s_out" % pid
dst = "/verif/seeded/%s-%s" % (pid, name)
os.makedirs(dst, exist_ok=True)
shutil.copy(os.path.join(src, "m%s.diff" % k), os.path.join(dst, "patch.diff"))
shutil.copy(os.path.join(src, "m%s_demo.py" % k), os.path.join(dst, "demo.py"))
meta = json.load(open(os.path.join(src, "m%s.json" % k)))
meta.update(dict(breaks=pid, detected_by=[c for c in caught.split(",") if c], confirmed=
    "applied to a clean /repo with tools/trymut.sh: demo exits 0 on the clean tree and non-zero with the patch; "
    "listed checks (quick tier) then run against the patched tree; patch reverted afterwards", note=note,
    base_commit=os.popen("git -C /repo log --format=%h -1").read().strip()))
json.dump(meta, open(os.path.join(dst, "meta.json"), "w"), indent=1)
print("kept", dst)
