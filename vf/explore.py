"""E1: stateless, replay-based, deviation-bounded choice explorer.

A harness is `run(job, ch) -> Outcome`.  It builds fresh real objects and calls
`ch.choose(n, label)` wherever the environment/driver has a choice.  Choice 0 is
the default answer.  `explore_job` runs the all-defaults execution, then every
execution with one deviation, two, ... up to `bound` (None == the full tree).
Executions always run to completion.

Guards against nondeterminism: when a prefix is replayed, the (label, n)
sequence of the replayed part must equal what the parent execution recorded,
otherwise Nondeterminism is raised (check exits 2, "broken").
"""
import hashlib
import json
import os
import random
import signal


class Nondeterminism(Exception):
    pass


class Chooser:
    __slots__ = ("prefix", "choices", "points", "expect")

    def __init__(self, prefix=(), expect=None):
        self.prefix = prefix
        self.choices = []
        self.points = []  # (label, n, cost)
        self.expect = expect  # points recorded by the parent for the replayed prefix

    def choose(self, n, label="", cost=1):
        """Return an int in range(n). 0 is the default answer.
        cost=0 makes the alternative "free" (not counted as a deviation)."""
        i = len(self.choices)
        if n <= 0:
            raise ValueError("choose(n<=0) at %r" % (label,))
        if i < len(self.prefix):
            c = self.prefix[i]
            if c >= n:
                raise Nondeterminism("replay: choice %d out of range %d at point %d %r" % (c, n, i, label))
            if self.expect is not None and i < len(self.expect):
                if (self.expect[i][0], self.expect[i][1]) != (label, n):
                    raise Nondeterminism("replay: point %d is (%r,%d), parent recorded %r" % (i, label, n, self.expect[i]))
        else:
            c = 0
        self.choices.append(c)
        self.points.append((label, n, cost))
        return c

    def pick(self, seq, label="", cost=1):
        return seq[self.choose(len(seq), label, cost)]

    def flag(self, label="", cost=1):
        return self.choose(2, label, cost) == 1

    def ndev(self):
        return sum(p[2] for c, p in zip(self.choices, self.points) if c)


class Outcome:
    """What one execution reports.

    obs        : hashable/JSON-able summary of what was observed (for distinct-outcome counting)
    violations : list of (key, message) ; key identifies the *kind* of failure (call site + parameter)
    states     : optional list of hashable state snapshots along the run (for states/transitions counts)
    """
    __slots__ = ("obs", "violations", "states", "sample")

    def __init__(self, obs=None, violations=None, states=None, sample=None):
        self.obs = obs
        self.violations = violations or []
        self.states = states
        self.sample = sample


HANG_SECONDS = float(os.environ.get("VF_HANG_SECONDS", "10"))


class ExecutionHang(BaseException):
    """raised inside an execution that has used HANG_SECONDS of CPU time (a loop in the code under test that never ends)"""


_HUNG = [0]


def guarded(harness, job, ch):
    """run one execution under a CPU-time limit: code that spins for ever becomes a violation, not a check that never returns.
    Harnesses record exceptions that escape the code under test (`except BaseException`), so the interrupt may be swallowed:
    the handler re-arms itself (1 s) until the harness has returned, and the verdict is taken from the counter."""
    def onalarm(sig, frm):
        _HUNG[0] += 1
        signal.setitimer(signal.ITIMER_VIRTUAL, 1.0)
        raise ExecutionHang()
    try:
        old = signal.signal(signal.SIGVTALRM, onalarm)
    except ValueError:           # not in the main thread: no guard
        return harness(job, ch)
    _HUNG[0] = 0
    signal.setitimer(signal.ITIMER_VIRTUAL, HANG_SECONDS)
    out = None
    try:
        out = harness(job, ch)
    except ExecutionHang:
        pass
    finally:
        signal.setitimer(signal.ITIMER_VIRTUAL, 0)
        signal.signal(signal.SIGVTALRM, old)
    if _HUNG[0]:
        return Outcome(obs=("hang",), violations=[("hang:execution", "the execution did not end within %g s of CPU time "
                                                   "(choices so far %r)" % (HANG_SECONDS, list(ch.choices)[:60]))])
    return out


def h64(x):
    if not isinstance(x, (bytes, bytearray)):
        x = repr(x).encode("utf-8", "backslashreplace")
    return int.from_bytes(hashlib.blake2b(x, digest_size=8).digest(), "big")


class JobResult:
    def __init__(self, job=None):
        self.job = job
        self.executions = 0
        self.nontrivial = 0      # executions deviating from defaults whose observation was new
        self.obs = set()         # hashes of distinct observations
        self.states = set()
        self.transitions = set()
        self.maxdev = 0
        self.maxpoints = 0
        self.capped = False
        self.violations = {}     # key -> dict(ndev, choices, message, job, count)
        self.samples = []
        self.extra = {}

    def add_violation(self, key, message, job, choices, ndev, detail=None):
        v = self.violations.get(key)
        rank = (ndev, len(choices))
        if v is None:
            self.violations[key] = dict(key=key, message=message, job=job, choices=list(choices),
                                        ndev=ndev, count=1, detail=detail)
        else:
            v["count"] += 1
            if rank < (v["ndev"], len(v["choices"])):
                v.update(message=message, job=job, choices=list(choices), ndev=ndev, detail=detail)

    def merge(self, other):
        self.executions += other.executions
        self.nontrivial += other.nontrivial
        new = other.obs - self.obs
        self.obs |= other.obs
        self.states |= other.states
        self.transitions |= other.transitions
        self.maxdev = max(self.maxdev, other.maxdev)
        self.maxpoints = max(self.maxpoints, other.maxpoints)
        self.capped = self.capped or other.capped
        for k, v in other.violations.items():
            mine = self.violations.get(k)
            if mine is None:
                self.violations[k] = dict(v)
            else:
                cnt = mine["count"] + v["count"]
                if (v["ndev"], len(v["choices"])) < (mine["ndev"], len(mine["choices"])):
                    mine.update(v)
                mine["count"] = cnt
        for s in other.samples:
            if len(self.samples) < 12:
                self.samples.append(s)
        for k, v in other.extra.items():
            if k.endswith("_max") or k.startswith("bfs_max"):
                self.extra[k] = max(self.extra.get(k, 0), v)
            elif isinstance(v, (int, float)):
                self.extra[k] = self.extra.get(k, 0) + v
            else:
                self.extra.setdefault(k, v)
        return self


def explore_job(harness, job, bound=None, cap=None, want_samples=2, seed=0):
    """Run `harness(job, ch)` for every choice sequence with <= bound deviations.

    Returns a JobResult.  `cap` limits the number of executions (reported as capped)."""
    res = JobResult(job)
    rnd = random.Random((seed, repr(job)).__repr__())
    stack = [((), None)]
    shard = None
    if isinstance(job, tuple) and job and isinstance(job[-1], tuple) and job[-1][:1] == ("shard",):
        shard = (job[-1][1], job[-1][2])   # (k, n): this job explores every n-th first-level subtree
    while stack:
        prefix, expect = stack.pop()
        ch = Chooser(prefix, expect)
        out = guarded(harness, job, ch)
        if len(ch.choices) < len(prefix) and out.obs != ("hang",):
            raise Nondeterminism("replay: execution ended after %d points, prefix has %d" % (len(ch.choices), len(prefix)))
        if shard and not prefix:
            # root execution: counted by shard 0 only; children dealt round-robin
            pts = ch.points
            kids = []
            for i in range(len(pts) - 1, -1, -1):
                if bound is not None and pts[i][2] > bound:
                    continue
                for alt in range(pts[i][1] - 1, 0, -1):
                    kids.append((tuple(ch.choices[:i]) + (alt,), pts[:i + 1]))
            stack.extend(k for j, k in enumerate(kids) if j % shard[1] == shard[0])
            if shard[0] != 0:
                continue
            shard_root = True
        else:
            shard_root = False
        res.executions += 1
        nd = ch.ndev()
        res.maxdev = max(res.maxdev, nd)
        res.maxpoints = max(res.maxpoints, len(ch.choices))
        oh = h64(out.obs)
        if oh not in res.obs:
            res.obs.add(oh)
            if any(ch.choices):
                res.nontrivial += 1
        if out.states:
            prev = None
            for s in out.states:
                hs = h64(s)
                res.states.add(hs)
                if prev is not None:
                    res.transitions.add((prev, hs))
                prev = hs
        for key, msg in out.violations:
            res.add_violation(key, msg, job, ch.choices, nd)
        if out.obs == ("hang",):      # every further execution through the same loop would cost HANG_SECONDS: the job stops here
            res.capped = True
            res.extra["stopped_after_hang"] = 1
            break
        if len(res.samples) < want_samples and (res.executions == 1 or rnd.random() < 0.01):
            res.samples.append(dict(job=job, choices=_trim(ch.choices),
                                    labels=[p[0] for p in ch.points][:40],
                                    sample=out.sample if out.sample is not None else _short(out.obs)))
        if cap is not None and res.executions >= cap:
            if stack:
                res.capped = True
            break
        if shard_root:
            continue
        # children: deviate at any point after the prefix
        pts = ch.points
        base = sum(pts[i][2] for i in range(len(prefix)) if prefix[i])
        for i in range(len(pts) - 1, len(prefix) - 1, -1):
            n, cost = pts[i][1], pts[i][2]
            if bound is not None and base + cost > bound:
                continue
            for alt in range(n - 1, 0, -1):
                stack.append((tuple(ch.choices[:i]) + (alt,), pts[:i + 1]))
    return res


def replay(harness, job, choices):
    ch = Chooser(tuple(choices))
    out = guarded(harness, job, ch)
    return ch, out


def _trim(choices):
    c = list(choices)
    while c and c[-1] == 0:
        c.pop()
    return c


def _short(x, limit=600):
    try:
        s = json.dumps(x, default=repr)
    except Exception:
        s = repr(x)
    if len(s) > limit:
        return s[:limit] + "..."
    try:
        return json.loads(s)
    except Exception:
        return s


def sharded(jobs, n):
    """split every job into n shard-jobs (first-level subtrees dealt round-robin)"""
    return [tuple(j) + (("shard", k, n),) for j in jobs for k in range(n)]


def standard(harness, bound_of_tier, cap_of_tier=None, job_bound=None):
    """Build the run_job / replay pair every E1 check module exports.
    job_bound(job, tier): per-job deviation bound (default: bound_of_tier(tier) for every job)"""
    def run_job(job, tier, seed):
        cap = cap_of_tier(tier) if cap_of_tier else None
        b = job_bound(job, tier) if job_bound else bound_of_tier(tier)
        if b is not None and isinstance(job, tuple) and "sweep" in job:
            b -= 1     # sweep jobs enumerate a full configuration grid (free choices) x one deviation less
        return explore_job(harness, job, bound=b, cap=cap, seed=seed)

    def replay_(job, choices):
        ch, out = replay(harness, job, choices)
        return list(out.violations)
    return run_job, replay_
