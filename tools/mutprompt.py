#!/usr/bin/env python3
import json, sys
props = {json.loads(l)["id"]: json.loads(l) for l in open("/verif/properties.jsonl")}
p = props[sys.argv[1]]
pid = p["id"]
N = int(sys.argv[2]) if len(sys.argv) > 2 else 2
NW = {2: "TWO", 3: "THREE", 4: "FOUR"}[N]
KS = ", ".join(str(i) for i in range(1, N + 1))
AVOID = ""
if len(sys.argv) > 3 and sys.argv[3] == "avoid":
    import glob, os
    lines = []
    for d in sorted(glob.glob("/verif/seeded/%s-*" % pid)):
        try:
            m = json.load(open(os.path.join(d, "meta.json")))
            lines.append("  - " + " ".join(str(m.get("summary", "")).split())[:260])
        except Exception:
            pass
    if lines:
        AVOID = ("\n\nALREADY TRIED by earlier adversaries (do NOT repeat these or trivial variants of them; find different code sites, "
                 "different mechanisms, different triggering circumstances - e.g. other methods of the same classes, other classes named in "
                 "the property, interactions between two features, state carried from one operation/message/run to the next, rarely used "
                 "parameters and entry points):\n" + "\n".join(lines))
TEXT = (f"""You are helping evaluate a verification effort for the Python library ioflo/hio (a generator-based hierarchical cooperative scheduler with virtual time, plus nonblocking TCP/TLS and HTTP client/server, memo datagram transport, LMDB-backed stores). Your job is to play the adversary: produce realistic, subtle code changes ("seeded bugs") that break ONE stated property of the library.

Your private scratch copy of the repository is the git worktree at /tmp/mut_{pid} (library source under /tmp/mut_{pid}/src/hio, its tests under /tmp/mut_{pid}/tests). Work ONLY inside /tmp/mut_{pid} and write your results to /tmp/mut_{pid}_out/. Do NOT read, list or touch /verif, /repo, /root/.claude or /root/.vp, and do not run git commands that change /repo (git diff / git checkout / git apply inside your worktree are fine; do NOT use git stash - the stash is shared by all worktrees). Never commit.

THE PROPERTY ({pid}): {p['title']}
Statement: {p['statement']}
Quantified over: {p['quantifier']['text']}
Code most relevant: {', '.join(p['anchors']['files'])}

{{AVOID_PLACEHOLDER}}TASK: produce {NW} independent changes to the library source (each a separate small patch, 1-15 changed lines) such that, with the change applied:
  (a) the library still imports and the existing tests still pass exactly as before. Note: the pinned suite `cd /tmp/mut_{pid} && /venv/bin/python -m pytest -q -p no:cacheprovider tests/...` imports the *installed* site-packages hio, so additionally run the relevant tree-directed tests with `cd /tmp/mut_{pid} && PYTHONPATH=/tmp/mut_{pid}/src /venv/bin/python -m pytest -q -p no:cacheprovider <relevant test files>` before and after your change and make sure the set of failing tests is unchanged (IMPORTANT: other people run the same port-using tests concurrently on this machine; to avoid port clashes run every pytest command inside a private network namespace: `unshare -n sh -c 'ip link set lo up; cd /tmp/mut_{pid} && PYTHONPATH=/tmp/mut_{pid}/src /venv/bin/python -m pytest -q -p no:cacheprovider <files>'`; run only the test files relevant to the code you touch, not the whole suite) (a few tests fail already on the unchanged tree, e.g. tests/base/test_doist.py::test_doist_dos, tests/base/test_asyncio.py::test_asyncio_await_method, tests/base/test_filing.py::test_filing; hier/ and memo tests may have their own pre-existing failures - compare before/after);
  (b) the property above is violated, but only under something specific: a particular interleaving or step order, a fault at a particular point, a multi-step sequence of operations, an unusual-but-legal input, a boundary value, or two cooperating sites that each look fine alone. Do NOT produce changes that ordinary use would expose at once (e.g. breaking every call). Prefer changes in cursor/offset/ordering/state-reset logic, off-by-one at a boundary, a dropped or swapped step on a rare path, a stale cached value, a condition that is wrong only for one combination of flags.
  (c) the changes should each break the property in DIFFERENT ways / at different code sites.

For each change k in ({KS}) write:
  /tmp/mut_{pid}_out/m{{k}}.diff   - output of `git -C /tmp/mut_{pid} diff` with ONLY that change applied (paths relative to the repo root, applicable with `git apply`)
  /tmp/mut_{pid}_out/m{{k}}_demo.py - a standalone script run as `PYTHONPATH=<root>/src /venv/bin/python m{{k}}_demo.py` (it must take the source root from PYTHONPATH, not hard-code /tmp/mut_{pid}) that exits 0 on the unchanged tree and exits non-zero (assertion failure) with the change applied, demonstrating the property violation through public API use
  /tmp/mut_{pid}_out/m{{k}}.json    - {{"property": "{pid}", "summary": "...what was changed...", "needs": "...what specific circumstance makes it manifest...", "tests_run": "...commands you ran and their pass/fail counts before and after..."}}
After producing each diff, revert the worktree (`git -C /tmp/mut_{pid} checkout -- .`) so the patches are independent, and verify each demo passes on the clean worktree and fails with its patch applied. Leave the worktree clean at the end. Use /venv/bin/python (3.12) for everything. There is no network. Clean up any /tmp/hio* or /root/hio directories tests may leave behind. In your final message just list the files written and one line per change.""")
print(TEXT.replace("{AVOID_PLACEHOLDER}", (AVOID.strip() + "\n\n") if AVOID else ""))
