"""Reference server-sent-events parser, transcribed from the WHATWG HTML 'event stream interpretation'
algorithm (9.2.6).  Input: the whole byte string of the stream.  Output: dispatched events
[(lastEventId, type, data)], last event id, reconnection time."""
import re


def parse(data):
    text = data.decode("utf-8")
    if text.startswith("﻿"):
        text = text[1:]
    # lines are terminated by CRLF, LF or CR; a trailing unterminated line is discarded at end of stream
    lines = re.split(r"\r\n|\n|\r", text)
    lines = lines[:-1]
    events = []
    buf = []          # data buffer as list of values (each followed by LF in the spec)
    etype = ""
    last_id = ""
    retry = None
    for line in lines:
        if line == "":
            if not buf:
                etype = ""
                continue
            events.append((last_id, etype, "\n".join(buf)))
            buf = []
            etype = ""
            continue
        if line.startswith(":"):
            continue
        if ":" in line:
            field, value = line.split(":", 1)
            if value.startswith(" "):
                value = value[1:]
        else:
            field, value = line, ""
        if field == "event":
            etype = value
        elif field == "data":
            buf.append(value)
        elif field == "id":
            if "\x00" not in value:
                last_id = value
        elif field == "retry":
            if value and all(c in "0123456789" for c in value):
                retry = int(value)
    return events, last_id, retry
