"""C17 - chunked transfer coding decodes exactly and rejects invalid chunk sizes."""
import re

from .. import httpgen
from ..enum import Acc

PID = "C17"
LEVEL = "exploration"
ASSUMPTIONS = [
    "bodies over {a, CR, LF, NUL}; chunk extensions {none, ;a, ;a=b, ;a=b;c}; trailers {none, one, two, two whose values hold colons}",
    "a chunk-size line made of hex digits padded with spaces/tabs may be accepted or rejected (RFC 7230 BWS), anything else that is "
    "not plain hex must be an error (an exception from the parser or the errored flag) and never yield a body",
]
ALPHA = [b"a", b"\r", b"\n", b"\x00"]
EXTS = [b"", b";a", b";a=b", b";a=b;c"]
TRAILERS = [[], [("X-T", "1")], [("X-T", "1"), ("Y-U", "v w")], [("X-N", "status: done"), ("Z", "a:b")]]      # last: values holding ': ' and ':'
SIZECHARS = "019afAF+-xX_ \tg"
HEXRE = re.compile(r"^[0-9A-Fa-f]+$")
PADRE = re.compile(r"^[ \t]*[0-9A-Fa-f]+[ \t]*$")

REQHEAD = b"POST /p HTTP/1.1\r\nHost: h\r\nTransfer-Encoding: chunked\r\n\r\n"
RSPHEAD = b"HTTP/1.1 200 OK\r\nTransfer-Encoding: chunked\r\n\r\n"


def RULE(tier):
    q = tier == "quick"
    return ("(a) every body of length 0..%d over 4 byte values x every composition into chunks x 4 extension forms x 4 trailer sets, "
            "encoded by a reference encoder (and by httping.packChunk when no extension), decoded by the real Requestant and Respondent "
            "fed in one piece and byte by byte: "
            "body, trailers and extension parms must come back exactly; (b) every chunk-size string of length <= %d over %d characters "
            "(hex digits, sign, x, underscore, blank, tab, g): plain hex must decode to that size, non-hex must be an error."
            % (4 if q else 6, 3 if q else 4, len(SIZECHARS)))


def EXHAUSTIVE(tier):
    return True


def jobs(tier):
    q = tier == "quick"
    js = [("body", n, e, t) for n in range(0, (4 if q else 6) + 1) for e in range(len(EXTS)) for t in range(len(TRAILERS))]
    js += [("size", c) for c in SIZECHARS]
    return js


def compositions(n):
    if n == 0:
        yield ()
        return
    for first in range(1, n + 1):
        for rest in compositions(n - first):
            yield (first,) + rest


def words(n):
    if n == 0:
        yield b""
        return
    for w in words(n - 1):
        for a in ALPHA:
            yield w + a


def encode(body, comp, ext, trailers):
    out = bytearray()
    pos = 0
    for i, k in enumerate(comp):
        out += b"%x" % k + (ext if i == 0 else b"") + b"\r\n" + body[pos:pos + k] + b"\r\n"
        pos += k
    out += b"0" + (ext if not comp else b"") + b"\r\n"
    for k, v in trailers:
        out += ("%s: %s" % (k, v)).encode() + b"\r\n"
    out += b"\r\n"
    return bytes(out)


def want_parms(ext):
    if not ext:
        return ()
    d = {}
    for part in ext.split(b";")[1:]:
        name, _, val = part.partition(b"=")
        d[name.strip()] = val.strip() or None
    return tuple(sorted(d.items()))


def check_body(body, comp, ei, ti, use_pack):
    ext, trailers = EXTS[ei], TRAILERS[ti]
    v = []
    if use_pack:
        from hio.core.http import httping
        enc = bytearray()
        pos = 0
        for k in comp:
            enc += httping.packChunk(body[pos:pos + k])
            pos += k
        enc += httping.packChunk(b"")[:-2]
        for k, val in trailers:
            enc += ("%s: %s" % (k, val)).encode() + b"\r\n"
        enc += b"\r\n"
        enc = bytes(enc)
        if enc != encode(body, comp, b"", trailers):
            v.append(("packChunk-differs", "packChunk gives %r, reference %r" % (enc, encode(body, comp, b"", trailers))))
    else:
        enc = encode(body, comp, ext, trailers)
    feeds = []
    for kind, head in (("req", REQHEAD), ("rsp", RSPHEAD)):
        feeds.append((kind, (head + enc,), ""))
        feeds.append((kind, (head,) + httpgen.bytewise(enc), ":bytewise"))
    if len(comp) >= 2 and not use_pack:
        # client side: head and first chunk are parsed, then the remaining chunks arrive together with the peer's close
        # (a server that sends the tail of its answer and closes): everything needed is in the buffer, the body must be whole
        first = len(b"%x" % comp[0]) + len(ext) + 2 + comp[0] + 2
        feeds.append(("rsp", (RSPHEAD + enc[:first], enc[first:]), ":tail-with-close"))
    if comp and comp[0] >= 2 and not use_pack:
        # the first chunk's data arrives in two reads, the second of which carries everything else as well
        cut = len(b"%x" % comp[0]) + len(ext) + 2 + 1
        for kind, head in (("req", REQHEAD), ("rsp", RSPHEAD)):
            feeds.append((kind, (head + enc[:cut], enc[cut:]), ":cut-in-chunk-data"))
    for kind, frags, how in feeds:
        res, left, exc = httpgen.drive(kind, frags, close_first=(how == ":tail-with-close"))
        tag = "%s:%s%s%s" % (kind, "ext" if ext and not use_pack else "noext", ":trailers" if trailers else "", how)
        if exc:
            v.append(("decode-raises:%s:%s" % (exc[0], tag), "chunked %r raised %r" % (enc, exc)))
            continue
        msgs = [m for m in res if m[0] == kind]
        if len(msgs) != 1 or left:
            v.append(("decode-incomplete:" + tag, "chunked %r: %d messages, leftover %r, results %r" % (enc, len(msgs), left, res[:1])))
            continue
        m = msgs[0]
        gbody, gtrails, gparms, errored = (m[8], m[9], m[10], m[12]) if kind == "req" else (m[5], m[6], m[7], m[9])
        if errored:
            v.append(("decode-errored:" + tag, "chunked %r flagged errored: %r" % (enc, m[13] if kind == "req" else m[10])))
            continue
        if gbody != body:
            v.append(("decode-body:" + tag, "chunked %r decoded to %r, expected %r" % (enc, gbody, body)))
        wt = tuple((k, v_) for k, v_ in trailers)
        if tuple(gtrails or ()) != wt:
            v.append(("decode-trailers:" + tag, "chunked %r trailers %r expected %r" % (enc, gtrails, wt)))
        if not use_pack and tuple(gparms or ()) != want_parms(ext):
            v.append(("decode-parms:" + tag, "chunked %r parms %r expected %r" % (enc, gparms, want_parms(ext))))
    return v


def lenient_value(s):
    try:
        return int(s.strip(), 16)
    except ValueError:
        return None


def check_size(s):
    v = []
    valid = bool(HEXRE.match(s))
    padded = bool(PADRE.match(s))
    lv = lenient_value(s)
    n = int(s, 16) if valid else (lv if lv is not None and 0 <= lv <= 0xffff else 3)
    if n > 0xffff:
        return v
    data = b"Z" * n
    for sfx in (b"", b";a=1"):      # the same size line alone and followed by a chunk extension
        if n:
            enc = s.encode() + sfx + b"\r\n" + data + b"\r\n0\r\n\r\n"
        else:
            enc = s.encode() + sfx + b"\r\n\r\n"
        for kind, head in (("req", REQHEAD), ("rsp", RSPHEAD)):
            res, left, exc = httpgen.drive(kind, (head + enc,))
            msgs = [m for m in res if m[0] == kind]
            errored = bool(exc) or any((m[12] if kind == "req" else m[9]) for m in msgs)
            gbody = None
            if msgs and not errored:
                gbody = msgs[0][8] if kind == "req" else msgs[0][5]
            if valid:
                if errored or gbody != data:
                    v.append(("size-valid-rejected:%s%s" % (kind, ":with-extension" if sfx else ""), "size line %r (=%d) gave error=%r body=%r" % (s, n, exc or errored, None if gbody is None else len(gbody))))
            elif padded:
                pass
            else:
                if not errored:     # "is reported as an error": also a parser that silently waits for more chunk data has accepted the size
                    shape = re.sub(r"[0-9a-fA-F]+", "H", s.strip())
                    shape = re.sub(r"[ \t]+", "w", shape)
                    cls = {"+H": "plus-sign", "-H": "minus-sign", "HxH": "0x-prefix", "HXH": "0x-prefix", "H_H": "underscore",
                           "HwH": "inner-whitespace"}.get(shape, "other:" + shape)
                    v.append(("size-invalid-accepted:%s%s" % (cls, ":with-extension" if sfx else ""),
                              "size line %r is not plain hex but was not reported as an error (%s)" % (
                                  s, "decoded as a chunk of %s bytes" % (None if gbody is None else len(gbody)) if msgs else "parser waits for more chunk data")))
    return v


def run_case(case):
    if case[0] == "body":
        _, body, comp, ei, ti, use_pack = case
        return check_body(bytes(body), tuple(comp), ei, ti, bool(use_pack))
    return check_size(case[1])


def run_job(job, tier, seed):
    acc = Acc(job)
    cnt = 0

    def do(case, sample):
        nonlocal cnt
        viols = run_case(case)
        cnt += 1
        if viols or cnt % 997 == 1:
            acc.case(case, "ok" if not viols else viols[0][0], viols, sample=sample)
        else:
            acc.bulk(1, 1)
    if job[0] == "body":
        _, n, ei, ti = job
        for body in words(n):
            for comp in compositions(n):
                do(["body", list(body), list(comp), ei, ti, False], dict(body=repr(body), chunks=list(comp), ext=repr(EXTS[ei]), trailers=TRAILERS[ti]))
                if ei == 0:
                    do(["body", list(body), list(comp), ei, ti, True], dict(body=repr(body), chunks=list(comp), packChunk=True))
    else:
        first = job[1]
        maxlen = 3 if tier == "quick" else 4
        stack = [first]
        if first == SIZECHARS[0]:      # once: the empty size line, and sizes written with more leading zeros than any size needs digits
            for s in ("", "0" * 16 + "1", "0" * 17 + "a", "0" * 20, "0" * 40 + "2"):
                do(["size", s], dict(size_line=s))
        while stack:
            s = stack.pop()
            do(["size", s], dict(size_line=s))
            if len(s) < maxlen:
                stack.extend(s + c for c in SIZECHARS)
    acc.r.obs.add(hash(job[:2]))
    return acc.result()


def replay(job, case):
    return run_case(case)
