#!/usr/bin/env python3
"""Re-run every seeded change under /verif/seeded against the checks listed in its meta.json and write DETECTION.md.
Each patch is applied to a private scratch worktree of /repo (checks run with VF_REPO_SRC / VF_OUT), several at a time."""
import glob, json, os, subprocess, sys, time

V = "/verif"


def sh(cmd, **kw):
    return subprocess.run(cmd, shell=True, capture_output=True, text=True, **kw)


def one(d):
    """one seeded change on a private scratch worktree of /repo (VF_REPO_SRC / VF_OUT): /repo and /verif/evidence stay untouched"""
    name = os.path.basename(d)
    meta = json.load(open(os.path.join(d, "meta.json")))
    patch = os.path.join(d, "patch.diff")
    demo = os.path.join(d, "demo.py")
    hasdemo = os.path.exists(demo)
    import tempfile
    w = tempfile.mkdtemp(prefix="vfdet.", dir="/dev/shm" if os.path.isdir("/dev/shm") else "/var/tmp")
    os.rmdir(w)
    if sh("git -C /repo worktree add --detach %s HEAD" % w).returncode != 0:
        return (name, meta, "cannot make a scratch worktree", {}, "-", None)
    try:
        env = "PYTHONWARNINGS=ignore PYTHONPATH=%s/src" % w
        clean = sh("%s timeout 300 /venv/bin/python %s" % (env, demo)).returncode if hasdemo else "-"
        if sh("git -C %s apply %s" % (w, patch)).returncode != 0:
            return (name, meta, "patch does not apply to the current tree", {}, clean, None)
        dirty = sh("%s timeout 300 /venv/bin/python %s" % (env, demo)).returncode if hasdemo else "-"
        res = {}
        for c in meta.get("detected_by", []) or [meta["breaks"]]:
            t0 = time.time()
            r = sh("cd /verif && VF_REPO_SRC=%s/src VF_OUT=%s/vfout VF_PROCS=%d ./check %s --tier quick" % (w, w, PROCS, c))
            keys = [l.split("key=")[1].split()[0] for l in r.stdout.splitlines() if l.startswith("VIOLATION") and "key=" in l]
            res[c] = (r.returncode, keys[:2], round(time.time() - t0, 1))
        print(name, clean, dirty, res, flush=True)
        return (name, meta, None, res, clean, dirty)
    finally:
        sh("git -C /repo worktree remove --force %s; rm -rf %s" % (w, w))


PAR, PROCS = 5, 4


def main():
    from concurrent.futures import ThreadPoolExecutor
    only = sys.argv[1:]
    dirs = [d for d in sorted(glob.glob(os.path.join(V, "seeded", "*")))
            if not only or any(os.path.basename(d).startswith(o) for o in only)]
    with ThreadPoolExecutor(PAR) as ex:
        rows = list(ex.map(one, dirs))
    sh("rm -rf /tmp/hio* /root/hio")
    with open(os.path.join(V, "DETECTION.md"), "w") as f:
        f.write("# Seeded changes and the checks that catch them\n\n"
                "Each row: a change to ioflo/hio that breaks one property (written by an independent sub-agent from the text of the property only, "
                "with a demo script, or by hand without one: demo column '-'; see DESIGN.md section 14), re-verified here: the demo exits 0 on the clean tree and non-zero with the patch; "
                "the patch is applied to a scratch worktree of /repo, the listed checks run against it at quick tier. "
                "`exit 1` = the check reports a VIOLATION. Regenerate with `python3 tools/detection.py`.\n\n"
                "| Seeded change | Breaks | Needs | demo clean/patched | Check: exit, first keys, seconds | Note |\n|---|---|---|---|---|---|\n")
        for name, meta, err, res, clean, dirty in rows:
            checks = err or "; ".join("%s: exit %s %s %ss" % (c, v[0], ",".join(v[1]) or "-", v[2]) for c, v in res.items())
            f.write("| %s | %s | %s | %s/%s | %s | %s |\n" % (name, meta.get("breaks"), (meta.get("needs") or "").replace("|", "/").replace("\n", " ")[:220],
                                                            clean, dirty, checks, (meta.get("note") or "").replace("|", "/")))
    bad = [r[0] for r in rows if r[3] and not any(v[0] == 1 for v in r[3].values())]
    print("rows", len(rows), "undetected", bad)
    return 0


if __name__ == "__main__":
    sys.exit(main())
