"""C02 - forced exits are nested: reverse enter order, children before parent, before do() returns"""
from .. import sched, sched_mon
from ..explore import Outcome, standard

PID = "C02"
LEVEL = "model_checking"
ASSUMPTIONS = [
    "CPython 3.12 generator semantics; virtual time (real=False)",
    "doer forests bounded by shape depth/leaf count; per-leaf horizon 3 recurs; extend-created leaves horizon 2",
]


def BOUND(tier):
    return 2 if tier == "quick" else 3


def RULE(tier):
    return ("" if tier == "quick" else sched.THOROUGH_NOTE + ". ") + ("stateless exploration of the real Doist/DoDoer/Doer code: every doer forest shape in the tier's shape set x "
            "every execution with <= %d deviations from the default answers (config tock/start/limit, leaf kind, per-step return/raise/failing enter/extend(fresh|two|second-enter-fails)/remove(prev|next|parent)). Oracle: inside every scheduler's exit window the alive children exit in reverse enter order, completely, children before parent, and every entered doer has exited when do() returns or raises. "
            "distinct_nontrivial = executions with >=1 deviation whose full event trace was not seen before." % BOUND(tier))


def EXHAUSTIVE(tier):
    return False


def jobs(tier):
    if tier == "quick":
        sh = sched.shapes(2, maxtop=3, maxleaves=4, always=True) + [s for s in sched.shapes(2, maxtop=2, maxkids=3, maxleaves=4) if any(x != "L" and len(x[2]) == 3 for x in s)]
    else:
        sh = sched.thorough_shapes(always=True) + [s for s in sched.shapes(2, maxtop=2, maxkids=3, maxleaves=5) if any(x != "L" and len(x[2]) == 3 for x in s)]
    return [("C02", s) for s in sh]


def harness(job, ch):
    w = sched.run(job, ch)
    return Outcome(obs=sched.summary(w), violations=sched_mon.c02(w), states=sched.state_seq(w),
                   sample=dict(shape=repr(job[1]), trace=[list(map(str, e[:3])) for e in w.trace[:30]]))


run_job, replay = standard(harness, BOUND, job_bound=sched.tier_bound)
