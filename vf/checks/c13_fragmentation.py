"""C13 - HTTP message parsing does not depend on how bytes are fragmented (differential: fragmented vs one-shot)."""
from .. import httpgen
from ..enum import Acc

PID = "C13"
LEVEL = "model_checking"
ASSUMPTIONS = [
    "messages come from a bounded grammar (requests and responses; no body / Content-Length 0,1,5 / chunked with optional extension "
    "and trailer / close-delimited; CRLF or bare-LF heads; optional 100-continue prelude; pipelined pairs)",
    "an exception escaping the parser is a result too: equal exceptions in both feeds count as equal (C16 judges escapes)",
]


def RULE(tier):
    return ("for every message of the corpus: parse it one-shot with the real Requestant/Respondent, then feed it in every partition "
            "with <= %d cut points and byte-by-byte%s; the tuple (start line fields, headers, body, trailers, chunk parms, persisted, "
            "errored/error, ended, leftover bytes, escaped exception) must equal the one-shot tuple. One case = (message, partition)."
            % ((2, "") if tier == "quick" else (3, " (3 cuts on messages <= 48 bytes)")))


def EXHAUSTIVE(tier):
    return True


def corpus(tier):
    full = tier != "quick"
    reqs = httpgen.request_corpus(full)
    rsps = httpgen.response_corpus(full)
    msgs = [("req", l, b, i.get("closes", False)) for l, b, i in reqs] + [("rsp", l, b, i.get("closes", False)) for l, b, i in rsps]
    # pipelined pairs (mixed line endings included)
    pick = [m for m in reqs if m[0] in ("req-crlf-GET-1.1-0-none", "req-lf-POST-1.1-0-cl1", "req-crlf-POST-1.1-0-ch0", "req-lf-POST-1.1-0-ch1")]
    for a in pick:
        for b in pick:
            msgs.append(("req", "pipe:%s+%s" % (a[0], b[0]), a[1] + b[1], False))
    pick = [m for m in rsps if m[0] in ("rsp-crlf-200-0-cl5", "rsp-lf-200-0-cl0", "rsp-crlf-200-0-ch0", "rsp-lf-200-0-ch1t")]
    for a in pick:
        for b in pick:
            msgs.append(("rsp", "pipe:%s+%s" % (a[0], b[0]), a[1] + b[1], False))
    return msgs


def big_corpus():
    """messages larger than the parser's line-size limit (64 KiB): fed one-shot vs in fixed-size reads"""
    body = bytes((i * 13 + 5) % 251 for i in range(70000))
    out = []
    out.append(("req", "big-req-cl", b"POST /p HTTP/1.1\r\nHost: h\r\nContent-Length: 70000\r\n\r\n" + body, False))
    out.append(("req", "big-req-chunked", b"POST /p HTTP/1.1\r\nHost: h\r\nTransfer-Encoding: chunked\r\n\r\n" +
                httpgen.chunked_body([body]), False))
    out.append(("rsp", "big-rsp-cl", b"HTTP/1.1 200 OK\r\nContent-Length: 70000\r\n\r\n" + body, False))
    out.append(("rsp", "big-rsp-close", b"HTTP/1.1 200 OK\r\nConnection: close\r\n\r\n" + body, True))
    out.append(("rsp", "big-rsp-chunked", b"HTTP/1.1 200 OK\r\nTransfer-Encoding: chunked\r\n\r\n" + httpgen.chunked_body([body[:35000], body[35000:]]), False))
    small = b"POST /p HTTP/1.1\r\nHost: h\r\nContent-Length: 1700\r\n\r\n" + body[:1700]
    out.append(("req", "big-req-pipelined-x4", small * 4 + b"GET /q HTTP/1.1\r\nHost: h\r\nX-Pad: " + b"p" * 60000 + b"\r\n\r\n", False))
    # a header / trailer line one byte below, at and one byte above the line-size limit, cut just before, inside and just after
    # its CRLF (the "edge-" messages are fed with those three cuts only)
    for n in (65535, 65536, 65537):
        line = b"X-Long: " + b"a" * (n - 8)
        out.append(("req", "edge-req-header-%d" % n, b"GET /p HTTP/1.1\r\nHost: h\r\n" + line + b"\r\n\r\n", False))
        out.append(("rsp", "edge-rsp-header-%d" % n, b"HTTP/1.1 200 OK\r\nContent-Length: 0\r\n" + line + b"\r\n\r\n", False))
        out.append(("rsp", "edge-rsp-trailer-%d" % n, b"HTTP/1.1 200 OK\r\nTransfer-Encoding: chunked\r\n\r\n1\r\nz\r\n0\r\n" + line + b"\r\n\r\n", False))
    return out


def jobs(tier):
    return [("C13", i) for i in range(len(corpus(tier)))] + [("C13big", i) for i in range(len(big_corpus()))]


_CORPUS = {}


def get(tier, i):
    if tier not in _CORPUS:
        _CORPUS[tier] = corpus(tier)
    return _CORPUS[tier][i]


def classify(label, a, b):
    ra, la, ea = a
    rb, lb, eb = b
    if ea != eb:
        return "escape-differs"
    if len(ra) != len(rb):
        return "message-count"
    for x, y in zip(ra, rb):
        if x != y:
            names = ("kind", "f1", "f2", "f3", "f4", "f5", "f6")
            for k in range(len(x)):
                if k >= len(y) or x[k] != y[k]:
                    return "field%d" % k
    if la != lb:
        return "leftover"
    return "other"


def run_case(tier, i, cuts):
    kind, label, data, closes = get(tier, i)
    base = httpgen.drive(kind, (data,), close_at_end=closes)
    frags = []
    pos = 0
    rebuf = bool(cuts) and cuts[0] == "rebuf"      # the parser is handed its (empty) receive buffer after construction
    for c in list(cuts[1:] if rebuf else cuts) + [len(data)]:
        frags.append(data[pos:c])
        pos = c
    got = httpgen.drive(kind, frags, close_at_end=closes, rebuf=rebuf)
    if got != base:
        eol = "lf" if ("-lf-" in label) else "crlf"
        fam = "chunked" if "-ch" in label else "close" if label.endswith("close") else "plain"
        key = "%s:%s:%s:%s:%s%s" % ("handed-buffer" if rebuf else "frag", kind, eol if not label.startswith("pipe") else "pipelined", fam, classify(label, base, got),
                                      ":100" if "-100-" in label else "")
        return base, got, [(key, "%s fed as %r differs from one-shot: one-shot %r ; fragmented %r" % (
            label, [bytes(f) for f in frags][:4], _brief(base), _brief(got)))]
    return base, got, []


def _brief(r):
    res, left, exc = r
    return dict(msgs=[(m[0], m[1], m[2]) + (("body", m[8]) if m[0] == "req" else ("body", m[5])) for m in res if m[0] != "partial"][:3],
                n=len(res), leftover=left[:20], exc=exc)


def run_big(i, reads):
    kind, label, data, closes = big_corpus()[i]
    base = httpgen.drive(kind, (data,), close_at_end=closes, maxmsgs=8)
    if reads < 0:      # one cut: just before (-1), inside (-2) or just after (-3) the CRLF of the long line
        cut = data.index(b"\r\n", data.index(b"X-Long")) + (-reads - 1)
        frags = [data[:cut], data[cut:]]
    else:
        frags = [data[k:k + reads] for k in range(0, len(data), reads)]
    got = httpgen.drive(kind, frags, close_at_end=closes, maxmsgs=8)
    if got != base:
        if reads < 0:
            return [("frag:line-limit:%s:%s" % (kind, classify(label, base, got)), "%s cut %s the CRLF of its long line differs from one-shot: one-shot %r ; fragmented %r"
                     % (label, {-1: "just before", -2: "inside", -3: "just after"}[reads], _brief(base), _brief(got)))]
        return [("frag:big:%s:%s" % (kind, classify(label, base, got)), "%s (%d bytes) fed in %d-byte reads differs from one-shot: one-shot %r ; fragmented %r"
                 % (label, len(data), reads, _brief(base), _brief(got)))]
    return []


def run_job(job, tier, seed):
    acc = Acc(job)
    if job[0] == "C13big":
        for reads in ((-1, -2, -3) if big_corpus()[job[1]][1].startswith("edge-") else (4096, 65536, 1000, 70000 - 1, 33)):
            viols = run_big(job[1], reads)
            acc.case(["big", job[1], reads], (job[1], reads, not viols), viols, sample=dict(message=big_corpus()[job[1]][1], reads=reads))
        return acc.result()
    i = job[1]
    kind, label, data, closes = get(tier, i)
    n = len(data)
    maxcuts = 2
    if tier != "quick" and n <= 48:
        maxcuts = 3
    base = httpgen.drive(kind, (data,), close_at_end=closes)
    acc.r.obs.add(hash(repr(base)))
    cnt = 0

    def do(cuts):
        nonlocal cnt
        b, g, viols = run_case(tier, i, cuts)
        cnt += 1
        if viols or cnt % 2503 == 1:
            acc.case([i, list(cuts)], (label, "same" if not viols else viols[0][0]), viols, sample=dict(message=label, size=n, cuts=list(cuts)))
        else:
            acc.bulk(1, 1)
    for a in range(1, n):
        do((a,))
    for a in range(1, n):
        for b in range(a + 1, n):
            do((a, b))
    if maxcuts >= 3:
        for a in range(1, n):
            for b in range(a + 1, n):
                for c in range(b + 1, n):
                    do((a, b, c))
    do(tuple(range(1, n)))
    do(("rebuf",))
    do(("rebuf", n // 2))
    # vacuity evidence: one-shot result reflects the generator's intent?
    acc.r.extra["messages"] = 1
    acc.r.extra["oneshot_errored_or_escaped"] = 1 if (base[2] or any(m[0] != "partial" and m[12 if m[0] == "req" else 9] for m in base[0])) else 0
    return acc.result()


def replay(job, case):
    if case[0] == "big":
        return run_big(int(case[1]), int(case[2]))
    i, cuts = case
    tier = "quick"
    import os
    tier = os.environ.get("VERIF_TIER", "quick")
    for t in (tier, "quick", "thorough"):
        try:
            return run_case(t, int(i), tuple(cuts))[2]
        except IndexError:
            continue
    return []
