"""FakeNet - an in-memory model of nonblocking TCP sockets (and a pass-through fake TLS layer).

Only what hio calls is implemented.  Every socket ever created stays registered in the Net
(`net.socks`) so reference counting can never close a leaked socket behind the checker's back.

Environment answers are delegated to a *policy* object (default: full sends, full reads, no
faults).  An exploring policy asks the explorer at each call.

Error semantics after FIN / RST follow what this image's kernel does on loopback; the
conformance script (vf/env/fakenet_conf.py) replays the deterministic scenarios against real
sockets and compares call by call.
"""
import errno
import socket as _real
import ssl as _ssl


class Policy:
    """Default environment answers. Override in harnesses."""

    def send(self, sock, n):
        """bytes accepted by the kernel for a send of n bytes (0..n), or a negative errno to raise"""
        return n

    def recv(self, sock, avail, bs):
        """bytes handed out (1..min(avail,bs)), or a negative errno to raise (only called when avail>0)"""
        return min(avail, bs)

    def connect(self, sock, listening):
        """0 connect at once; 1 EINPROGRESS first; negative errno"""
        return 0

    def handshake(self, sock):
        """'ok' | 'want_read' | 'want_write' | 'eof' | 'sslerror' | negative errno"""
        return "ok"

    def tls_want(self, sock, op):
        """spurious want on a TLS send/recv that could make progress: 0 none, 1 the usual one (send: WANT_WRITE, recv: WANT_READ),
        2 the opposite one (send: WANT_READ, recv: WANT_WRITE)"""
        return 0


class Net:
    def __init__(self, policy=None):
        self.policy = policy or Policy()
        self.listeners = {}
        self.socks = []
        self.nextport = 40000
        self.log = []          # (sockid, op, detail) every kernel-level call and its outcome

    def socket(self, family=_real.AF_INET, type=_real.SOCK_STREAM, proto=0):
        s = FakeSocket(self)
        s.kind = "user"
        return s

    def open_count(self):
        return sum(1 for s in self.socks if not s.closed)


def _err(code):
    cls = {errno.ECONNRESET: ConnectionResetError, errno.EPIPE: BrokenPipeError,
           errno.ECONNREFUSED: ConnectionRefusedError, errno.ECONNABORTED: ConnectionAbortedError,
           errno.EAGAIN: BlockingIOError, errno.ETIMEDOUT: TimeoutError}.get(code, OSError)
    return cls(code, "fakenet: " + errno.errorcode.get(code, str(code)))


class FakeSocket:
    def __init__(self, net):
        self.net = net
        self.id = len(net.socks)
        net.socks.append(self)
        self.state = "new"        # new | listening | connecting | connected | closed
        self.closed = False
        self.close_calls = 0
        self.name = None          # (host, port) local
        self.peername = None
        self.peer = None
        self.rx = bytearray()     # bytes that arrived and were not read yet
        self.rx_eof = False       # peer sent FIN
        self.err_pending = False  # an RST arrived: ECONNRESET is reported once
        self.reset = False        # connection is gone (after the report, or after writing to a closed peer)
        self.wr_shut = False
        self.rd_shut = False
        self.backlog = []
        self.sent = bytearray()   # every byte the kernel accepted from this side
        self.delivered = bytearray()  # every byte handed to the application on this side
        self.opts = {}
        self.blocking = True
        self.owner = None         # free tag for harnesses
        self.inprogress = 0
        self.refused = 0
        self.kind = "accepted"    # "user" when created through socket(); "accepted" for the remote end made by connect

    # -- helpers -------------------------------------------------------
    def _log(self, op, detail=None):
        self.net.log.append((self.id, op, detail))

    def _check_open(self):
        if self.closed:
            raise OSError(errno.EBADF, "fakenet: Bad file descriptor")

    # -- options -------------------------------------------------------
    def setsockopt(self, level, opt, value):
        self._check_open()
        self.opts[(level, opt)] = value

    def getsockopt(self, level, opt):
        self._check_open()
        return self.opts.get((level, opt), 1 << 20)

    def setblocking(self, flag):
        self._check_open()
        self.blocking = bool(flag)

    def settimeout(self, t):
        self.blocking = t is None

    def fileno(self):
        return -1 if self.closed else 1000 + self.id

    # -- server side -----------------------------------------------------
    def bind(self, ha):
        self._check_open()
        host, port = ha[0], ha[1]
        if port == 0:
            port = self.net.nextport
            self.net.nextport += 1
        cur = self.net.listeners.get(port)
        if cur is not None and not cur.closed:
            raise OSError(errno.EADDRINUSE, "fakenet: Address already in use")
        self.name = (host if host else "0.0.0.0", port)

    def listen(self, backlog=128):
        self._check_open()
        self.state = "listening"
        self.net.listeners[self.name[1]] = self

    def accept(self):
        self._check_open()
        if self.state != "listening":
            raise OSError(errno.EINVAL, "fakenet: not listening")
        if not self.backlog:
            raise _err(errno.EAGAIN)
        s = self.backlog.pop(0)
        self._log("accept", s.id)
        po = getattr(s.peer, "owner", None) if s.peer is not None else None
        if s.owner is None and isinstance(po, str) and po[:1] == "c" and po[1:].isdigit():
            s.owner = "s" + po[1:]       # server side of client c<i>: tagged at accept time, so that policies which single
        return s, s.peername             # out one connection also see the calls made inside the accepting service pass

    # -- client side -------------------------------------------------------
    def connect_ex(self, ha):
        self._check_open()
        if self.state == "connected":
            if self.inprogress == 1:     # completion of an EINPROGRESS connect is reported once as 0
                self.inprogress = 2
                return 0
            return errno.EISCONN
        lst = self.net.listeners.get(ha[1])
        listening = lst is not None and not lst.closed and lst.state == "listening"
        ans = self.net.policy.connect(self, listening)
        if isinstance(ans, int) and ans < 0:
            self._log("connect_ex", errno.errorcode.get(-ans))
            return -ans
        if not listening:
            # loopback: EINPROGRESS first, the refusal is reported by the next call
            if self.refused == 0:
                self.refused = 1
                self._log("connect_ex", "EINPROGRESS")
                return errno.EINPROGRESS
            self.refused = 0
            self._log("connect_ex", "ECONNREFUSED")
            return errno.ECONNREFUSED
        self.refused = 0
        if self.name is None:
            self.name = ("127.0.0.1", self.net.nextport)
            self.net.nextport += 1
        remote = FakeSocket(self.net)
        remote.state = "connected"
        remote.name = ("127.0.0.1", lst.name[1])
        remote.peername = self.name
        remote.peer = self
        self.peer = remote
        self.peername = ("127.0.0.1", lst.name[1])
        self.state = "connected"
        lst.backlog.append(remote)
        if ans == 1:
            self.inprogress = 1
            self._log("connect_ex", "EINPROGRESS")
            return errno.EINPROGRESS
        self.inprogress = 2
        self._log("connect_ex", 0)
        return 0

    def connect(self, ha):
        r = self.connect_ex(ha)
        if r not in (0, errno.EISCONN):
            raise _err(r)

    def getsockname(self):
        self._check_open()
        return self.name if self.name is not None else ("0.0.0.0", 0)

    def getpeername(self):
        self._check_open()
        if self.state != "connected" or self.reset or self.err_pending:
            raise OSError(errno.ENOTCONN, "fakenet: Transport endpoint is not connected")
        return self.peername

    # -- data ------------------------------------------------------------
    def send(self, data, flags=0):
        self._check_open()
        if self.state != "connected":
            raise _err(errno.EPIPE)
        if self.err_pending:
            self.err_pending = False
            self.reset = True
            self._log("send", "ECONNRESET")
            raise _err(errno.ECONNRESET)
        if self.reset or self.wr_shut:
            self._log("send", "EPIPE")
            raise _err(errno.EPIPE)
        n = len(data)
        peer = self.peer
        if peer.closed:
            # peer fully closed: the kernel accepts this write, the answering RST kills the connection
            self.sent.extend(bytes(data))
            self.reset = True
            self._log("send", ("lost", n))
            return n
        ans = self.net.policy.send(self, n)
        if ans < 0:
            self._log("send", errno.errorcode.get(-ans, -ans))
            raise _err(-ans)
        if ans == 0 and n > 0:
            self._log("send", "EAGAIN")
            raise _err(errno.EAGAIN)
        ans = min(ans, n)
        chunk = bytes(data[:ans])
        self.sent.extend(chunk)
        if not peer.rd_shut:
            peer.rx.extend(chunk)
        self._log("send", ans)
        return ans

    def recv(self, bs, flags=0):
        self._check_open()
        if self.state != "connected":
            raise OSError(errno.ENOTCONN, "fakenet: not connected")
        if self.rd_shut:
            self._log("recv", "EOF")
            return b""
        if self.rx:
            ans = self.net.policy.recv(self, len(self.rx), bs)
            if ans < 0:
                self._log("recv", errno.errorcode.get(-ans, -ans))
                raise _err(-ans)
            ans = max(1, min(ans, len(self.rx), bs))
            out = bytes(self.rx[:ans])
            del self.rx[:ans]
            self.delivered.extend(out)
            self._log("recv", ans)
            return out
        if self.err_pending:
            self.err_pending = False
            self.reset = True
            self._log("recv", "ECONNRESET")
            raise _err(errno.ECONNRESET)
        if self.rx_eof or self.reset:
            self._log("recv", "EOF")
            return b""
        ans = self.net.policy.recv(self, 0, bs)
        if isinstance(ans, int) and ans < 0:
            self._log("recv", errno.errorcode.get(-ans, -ans))
            raise _err(-ans)
        raise _err(errno.EAGAIN)

    def shutdown(self, how):
        self._check_open()
        if self.state != "connected" or self.reset or self.err_pending:
            raise OSError(errno.ENOTCONN, "fakenet: Transport endpoint is not connected")
        if how in (_real.SHUT_WR, _real.SHUT_RDWR) and not self.wr_shut:
            self.wr_shut = True
            if self.peer is not None and not self.peer.closed:
                self.peer.rx_eof = True
        if how in (_real.SHUT_RD, _real.SHUT_RDWR):
            self.rd_shut = True
        self._log("shutdown", how)

    def close(self):
        self.close_calls += 1
        if self.closed:
            return
        self.closed = True
        self._log("close")
        if self.state == "listening":
            if self.net.listeners.get(self.name[1]) is self:
                del self.net.listeners[self.name[1]]
            for s in self.backlog:      # connections never accepted are reset
                s.closed = True
                s.state = "closed"
                if s.peer is not None:
                    s.peer.err_pending = True
            self.backlog = []
        elif self.state == "connected" and self.peer is not None and not self.peer.closed:
            if self.rx and not self.rd_shut:
                # closing with unread data makes the kernel send RST instead of FIN
                self.peer.err_pending = True
            else:
                self.peer.rx_eof = True
        self.state = "closed"

    def detach(self):
        return self.fileno()

    # -- peer actions used by harnesses ---------------------------------------
    def abort(self):
        """close this end with RST (SO_LINGER 0 style)"""
        if self.closed:
            return
        self.closed = True
        self.close_calls += 1
        if self.state == "connected" and self.peer is not None and not self.peer.closed:
            self.peer.err_pending = True
        self.state = "closed"
        self._log("abort")

    def __repr__(self):
        return "<FakeSocket %d %s %s>" % (self.id, self.state, self.name)


# ---------------------------------------------------------------------------
# module-like namespace to install as hio.core.tcp.{clienting,serving}.socket

class SocketModule:
    """quacks like the `socket` module for the names hio uses"""

    def __init__(self, net):
        self._net = net
        for name in dir(_real):
            if name.isupper():
                setattr(self, name, getattr(_real, name))
        self.error = OSError
        self.timeout = _real.timeout
        self.gaierror = _real.gaierror
        self.herror = _real.herror

    def socket(self, *a, **kw):
        return self._net.socket(*a, **kw)

    def getaddrinfo(self, *a, **kw):
        return _real.getaddrinfo(*a, **kw)


class Installed:
    """context manager: replaces the socket module global in hio's tcp modules"""

    def __init__(self, net):
        self.net = net

    def __enter__(self):
        from hio.core.tcp import clienting, serving
        from hio.core import coring
        self.mods = (clienting, serving)
        self.saved = [m.socket for m in self.mods]
        ns = SocketModule(self.net)
        for m in self.mods:
            m.socket = ns
        self.coring, self.saved_coring = coring, coring.socket
        coring.socket = ResolverModule()
        # a client that has to make its own TLS context (http redirect from http:// to https://) gets a fake one
        self.saved_ssl = clienting.ssl
        clienting.ssl = SslModule(self.net)
        return self.net

    def __exit__(self, *exc):
        for m, s in zip(self.mods, self.saved):
            m.socket = s
        self.coring.socket = self.saved_coring
        self.mods[0].ssl = self.saved_ssl
        return False


class SslModule:
    """stand-in for the `ssl` module global of hio.core.tcp.clienting: constants and exception classes are the real ones, the
    two ways of making a context yield a FakeSSLContext on this net"""

    def __init__(self, net):
        self._net = net

    def __getattr__(self, name):
        return getattr(_ssl, name)

    def create_default_context(self, *a, **kw):
        return FakeSSLContext(self._net)

    def SSLContext(self, *a, **kw):
        return FakeSSLContext(self._net)


class ResolverModule:
    """stand-in for the `socket` module global of hio.core.coring (host name normalisation): name resolution is owned by the
    harness - numeric addresses resolve as the real resolver does without DNS (AI_NUMERICHOST), 'localhost' is 127.0.0.1 / ::1,
    every other name is unknown (gaierror EAI_NONAME), whatever the machine's DNS would say"""

    def __init__(self):
        for k in dir(_real):
            if k.isupper():
                setattr(self, k, getattr(_real, k))
        self.error = OSError
        self.gaierror = _real.gaierror

    def getaddrinfo(self, host, port, family=0, type=0, proto=0, flags=0):
        if host == "localhost":
            host = "::1" if family == _real.AF_INET6 else "127.0.0.1"
        try:
            return _real.getaddrinfo(host, port, family, type, proto, flags | _real.AI_NUMERICHOST)
        except _real.gaierror:
            raise _real.gaierror(_real.EAI_NONAME, "fakenet: Name or service not known")


# ---------------------------------------------------------------------------
# fake TLS: plaintext pass-through with OpenSSL's nonblocking error vocabulary

class FakeSSLContext:
    """passed through hio's public `context=` parameter"""

    def __init__(self, net):
        self.net = net
        self.verify_mode = _ssl.CERT_NONE
        self.check_hostname = False
        self.verify_flags = 0
        self.options = 0
        self.wrapped = []

    def load_default_certs(self, *a, **kw):
        pass

    def load_verify_locations(self, *a, **kw):
        pass

    def load_cert_chain(self, *a, **kw):
        pass

    def set_ciphers(self, *a, **kw):
        pass

    def wrap_socket(self, sock, server_side=False, do_handshake_on_connect=False, server_hostname=None, **kw):
        w = FakeSSLSocket(sock, server_side)
        self.wrapped.append(w)
        return w


class FakeSSLSocket:
    """wraps a FakeSocket; same object identity rules as ssl.SSLSocket (the plain socket is detached)"""

    def __init__(self, sock, server_side):
        self.raw = sock
        self.server_side = server_side
        self.handshaken = False
        self.net = sock.net
        sock.tls = self

    # everything not TLS specific goes to the raw socket
    def __getattr__(self, name):
        return getattr(self.raw, name)

    def do_handshake(self):
        raw = self.raw
        raw._check_open()
        if raw.err_pending:
            raw.err_pending = False
            raw.reset = True
            raw._log("handshake", "ECONNRESET")
            raise _err(errno.ECONNRESET)
        ans = self.net.policy.handshake(raw)
        raw._log("handshake", ans)
        if ans == "ok":
            if raw.rx_eof or raw.reset or (raw.peer is not None and raw.peer.closed):
                raise _ssl.SSLEOFError(_ssl.SSL_ERROR_EOF, "fakenet: EOF occurred in violation of protocol")
            self.handshaken = True
            return
        if ans == "want_read":
            raise _ssl.SSLWantReadError(_ssl.SSL_ERROR_WANT_READ, "fakenet: want read")
        if ans == "want_write":
            raise _ssl.SSLWantWriteError(_ssl.SSL_ERROR_WANT_WRITE, "fakenet: want write")
        if ans == "eof":
            raise _ssl.SSLEOFError(_ssl.SSL_ERROR_EOF, "fakenet: EOF occurred in violation of protocol")
        if ans == "sslerror":
            raise _ssl.SSLError(_ssl.SSL_ERROR_SSL, "fakenet: handshake failure")
        if isinstance(ans, int) and ans < 0:
            raise _err(-ans)
        raise AssertionError(ans)

    def send(self, data, flags=0):
        raw = self.raw
        want = self.net.policy.tls_want(raw, "send")
        if want == 2:        # TLS may need to READ (renegotiation, post-handshake messages) before it can send
            raw._log("send", "WANT_READ")
            raise _ssl.SSLWantReadError(_ssl.SSL_ERROR_WANT_READ, "fakenet: want read")
        if want:
            raw._log("send", "WANT_WRITE")
            raise _ssl.SSLWantWriteError(_ssl.SSL_ERROR_WANT_WRITE, "fakenet: want write")
        try:
            return raw.send(data)
        except BlockingIOError:
            raise _ssl.SSLWantWriteError(_ssl.SSL_ERROR_WANT_WRITE, "fakenet: want write")
        except OSError as ex:
            if ex.errno == -_SSL_EOF:
                raise _ssl.SSLEOFError(_ssl.SSL_ERROR_EOF, "fakenet: EOF occurred in violation of protocol")
            raise

    def recv(self, bs, flags=0):
        raw = self.raw
        want = self.net.policy.tls_want(raw, "recv")
        if want == 2:        # ... or to WRITE before it can receive
            raw._log("recv", "WANT_WRITE")
            raise _ssl.SSLWantWriteError(_ssl.SSL_ERROR_WANT_WRITE, "fakenet: want write")
        if want:
            raw._log("recv", "WANT_READ")
            raise _ssl.SSLWantReadError(_ssl.SSL_ERROR_WANT_READ, "fakenet: want read")
        try:
            return raw.recv(bs)
        except BlockingIOError:
            raise _ssl.SSLWantReadError(_ssl.SSL_ERROR_WANT_READ, "fakenet: want read")
        except OSError as ex:
            if ex.errno == -_SSL_EOF:
                raise _ssl.SSLEOFError(_ssl.SSL_ERROR_EOF, "fakenet: EOF occurred in violation of protocol")
            raise

    def close(self):
        self.raw.close()

    def shutdown(self, how):
        self.raw.shutdown(how)


_SSL_EOF = -9999  # pseudo errno a policy returns (as -(-9999)) to make a TLS send/recv raise SSLEOFError
SSL_EOF = -_SSL_EOF
