"""C11 - closing a TCP endpoint releases every socket it opened (E2: BFS over event histories)."""
from .. import tcpsys, treeguard
from ..enum import Acc, bfs
from ..env import fakenet

treeguard()
from hio.core.tcp import clienting, serving  # noqa: E402

PID = "C11"
LEVEL = "model_checking"
ASSUMPTIONS = [
    "kernel replaced by FakeNet; 'open' means close() was not called on the fake socket (observed on the fake, never via GC: the net keeps every socket alive)",
    "exceptions from servicing a closed server's stale tables are ignored by this check",
]

SERVER_EVENTS = ["fresh", "reuse", "svc", "svc_pending", "cclose", "crst", "reopen", "close", "svc_hs_eof", "svc_hs_sslerror", "svc_hs_reset",
                 "svc_recv_eio", "port_taken", "port_freed"]
TLS_ONLY = ("svc_pending", "svc_hs_eof", "svc_hs_sslerror", "svc_hs_reset")
HS_ANSWER = {"svc_pending": "want_read", "svc_hs_eof": "eof", "svc_hs_sslerror": "sslerror", "svc_hs_reset": -104}
CLIENT_EVENTS = ["up", "down", "connect", "service", "reopen", "close", "peerclose", "tick", "doer-enter", "doer-exit"]
# doer-enter / doer-exit: the client is run by its ClientDoer (enter opens it, exit closes it whatever state it is in)


def depth(tier):
    return 5 if tier == "quick" else 7


def RULE(tier):
    return ("explicit-state BFS to depth %d over event histories. Server (plain and TLS): {client connects from a fresh address, "
            "client reconnects from its previous address, server.service(), service with the TLS handshake still pending / ending in "
            "EOF / failing with a protocol error (ssl.SSLError) / reset, service with every receive failing with an unclassified errno, the port "
            "taken by / released by another listener (so that a reopen fails to bind), client "
            "closes, client resets, server.reopen(), server.close()}; after close()/reopen() every socket the server created or "
            "accepted must have been close()d (listen socket, ixes, pending-handshake cxes, replaced connections). Client (plain and "
            "TLS, reconnectable): {listener up/down, connect(), service(), reopen(), close(), peer closes, tyme advances, its ClientDoer entered / exited}; after every "
            "event at most the client's current socket is open, after close() / the doer's exit none. States are deduplicated on the full socket table + hio tables."
            % depth(tier))


def EXHAUSTIVE(tier):
    return False


def jobs(tier):
    n = 8
    return [("server", tls, k, n) for tls in (False, True) for k in range(n)] + \
           [("client", tls, k, n) for tls in (False, True) for k in range(n)]


class HsPolicy(fakenet.Policy):
    def __init__(self):
        self.pending = False
        self.answer = None      # answer of the TLS handshake calls made during the current service(): None = completes

        self.recv_errno = None  # errno every recv on an accepted socket fails with during the current service(): None = normal

    def handshake(self, sock):
        if self.answer is not None:
            return self.answer
        return "want_read" if self.pending else "ok"

    def recv(self, sock, avail, bs):
        if self.recv_errno is not None and sock.kind == "accepted":
            return -self.recv_errno
        return min(avail, bs) if avail else 0


def run_server(tls, hist):
    pol = HsPolicy()
    net = fakenet.Net(pol)
    viols = []
    with fakenet.Installed(net):
        kw = dict(host="127.0.0.1", port=6101, bs=64)
        server = serving.ServerTls(context=fakenet.FakeSSLContext(net), **kw) if tls else serving.Server(**kw)
        server.reopen()
        raws = []
        foreign = []
        trace = []
        for i, ev in enumerate(hist):
            try:
                if ev == "fresh":
                    c = net.socket()
                    c.owner = "raw"
                    c.connect_ex(("127.0.0.1", 6101))
                    raws.append(c)
                elif ev == "reuse":
                    old = [r for r in raws if r.name is not None]
                    if old:
                        o = old[-1]
                        name = o.name
                        if not o.closed:
                            o.close()
                        c = net.socket()
                        c.owner = "raw"
                        c.name = name
                        c.connect_ex(("127.0.0.1", 6101))
                        raws.append(c)
                elif ev in ("svc",) + TLS_ONLY:
                    pol.answer = HS_ANSWER.get(ev)
                    try:
                        server.service()
                    finally:
                        pol.answer = None
                elif ev == "svc_recv_eio":      # an error no errno list classifies (EIO) on every receive of this pass
                    pol.recv_errno = 5
                    try:
                        server.service()
                    finally:
                        pol.recv_errno = None
                elif ev == "port_taken":        # somebody else listens on the server's port (possible while the server is closed)
                    cur = net.listeners.get(6101)
                    if cur is None or cur.closed:
                        f = net.socket()
                        f.owner = "raw"
                        f.bind(("127.0.0.1", 6101))
                        f.listen(5)
                        foreign.append(f)
                elif ev == "port_freed":
                    for f in foreign:
                        if not f.closed:
                            f.close()
                elif ev == "cclose":
                    live = [r for r in raws if not r.closed]
                    if live:
                        live[-1].close()
                elif ev == "crst":
                    live = [r for r in raws if not r.closed]
                    if live:
                        live[-1].abort()
                elif ev == "reopen":
                    server.reopen()
                elif ev == "close":
                    server.close()
                trace.append("ok")
            except Exception as ex:
                trace.append("exc:" + type(ex).__name__)
            for f in foreign:                 # connections queued at somebody else's listener are not the server's
                for q in f.backlog:
                    q.owner = "raw"
            if ev in ("close", "reopen"):
                cur = server.ss if ev == "reopen" else None
                leaked = [s for s in net.socks if s.owner != "raw" and not s.closed and s is not cur]
                if leaked:
                    kinds = sorted(set(_where(server, s) for s in leaked))
                    for k in kinds:
                        viols.append(("leak:%s:%s:%s" % (ev, k, "tls" if tls else "plain"),
                                      "after server.%s() %d socket(s) still open (%s); history %s" % (ev, len(leaked), k, hist[:i + 1])))
        key = (tuple((s.owner, s.kind, s.closed, s.state, bool(s.rx_eof), bool(s.err_pending)) for s in net.socks),
               tuple(sorted((str(ca), r.cs is None, r.cutoff) for ca, r in server.ixes.items())),
               tuple(sorted((str(ca), r.cs is None) for ca, r in getattr(server, "cxes", {}).items())),
               server.ss is None)
    return key, viols, (key, tuple(trace))


def _where(server, s):
    for ca, r in server.ixes.items():
        if r.cs is not None and getattr(r.cs, "raw", r.cs) is s:
            return "in-ixes"
    for ca, r in getattr(server, "cxes", {}).items():
        if r.cs is not None and getattr(r.cs, "raw", r.cs) is s:
            return "in-cxes-handshake-pending"
    if s.state == "listening":
        return "old-listen-socket"
    return "dropped-from-tables" if s.kind == "accepted" else "other"


def run_client(tls, hist):
    pol = HsPolicy()
    net = fakenet.Net(pol)
    viols = []
    tyme = [0.0]
    with fakenet.Installed(net):
        kw = dict(host="127.0.0.1", port=6101, bs=64, reconnectable=True, tymeout=0.5, tymth=lambda: tyme[0])
        client = clienting.ClientTls(context=fakenet.FakeSSLContext(net), **kw) if tls else clienting.Client(**kw)
        ls = [None]
        doer = [None]
        trace = []
        for i, ev in enumerate(hist):
            try:
                if ev == "up":
                    if ls[0] is None or ls[0].closed:
                        s = net.socket()
                        s.owner = "raw"
                        s.bind(("127.0.0.1", 6101))
                        s.listen(5)
                        ls[0] = s
                elif ev == "down":
                    if ls[0] is not None and not ls[0].closed:
                        ls[0].close()
                elif ev == "connect":
                    client.connect()
                elif ev == "service":
                    client.service()
                elif ev == "reopen":
                    client.reopen()
                elif ev == "close":
                    client.close()
                elif ev == "doer-enter":
                    doer[0] = clienting.ClientDoer(client=client)
                    doer[0].enter()
                elif ev == "doer-exit":
                    if doer[0] is None:
                        doer[0] = clienting.ClientDoer(client=client)
                    doer[0].exit()
                elif ev == "peerclose":
                    for s in net.socks:
                        if s.kind == "accepted" and not s.closed:
                            s.close()
                elif ev == "tick":
                    tyme[0] += 1.0
                trace.append("ok")
            except Exception as ex:
                trace.append("exc:" + type(ex).__name__)
            cur = getattr(client.cs, "raw", client.cs) if client.cs is not None else None
            mine = [s for s in net.socks if s.kind == "user" and s.owner != "raw"]
            if ev in ("close", "doer-exit") and trace[-1] == "ok":
                cur = None        # the endpoint was closed: no socket of its own may stay open, the current one included
            leaked = [s for s in mine if not s.closed and s is not cur]
            if leaked:
                viols.append(("client-leak:%s:%s" % (ev, "tls" if tls else "plain"),
                              "after client %s %d earlier socket(s) still open; history %s" % (ev, len(leaked), hist[:i + 1])))
        key = (tuple((s.owner, s.kind, s.closed, s.state, bool(s.rx_eof)) for s in net.socks),
               client.cs is None, client.accepted, client.connected, client.cutoff, tyme[0] > 0, client.tymer.expired)
    return key, viols, (key, tuple(trace))


def run_job(job, tier, seed):
    acc = Acc(job)
    side, tls, k, n = job
    if side == "server":
        evs = [e for e in SERVER_EVENTS if tls or e not in TLS_ONLY]
        run = lambda hist: run_server(tls, hist)
    else:
        evs = CLIENT_EVENTS
        run = lambda hist: run_client(tls, hist)
    bfs(acc, run, lambda hist, key: evs, maxdepth=depth(tier), first=(k, n))
    return acc.result()


def replay(job, hist):
    side, tls = job[0], job[1]
    return (run_server if side == "server" else run_client)(bool(tls), list(hist))[1]
