"""C05 - run termination and done flags are exact"""
from .. import sched, sched_mon
from ..explore import Outcome, standard, sharded

PID = "C05"
LEVEL = "model_checking"
ASSUMPTIONS = [
    "CPython 3.12 generator semantics; virtual time (real=False)",
    "doer forests bounded by shape depth/leaf count; per-leaf horizon 3 recurs; extend-created leaves horizon 2",
    "doer objects start with a stale done=True as left by an earlier run",
]


def BOUND(tier):
    return 2 if tier == "quick" else 3


def RULE(tier):
    return ("" if tier == "quick" else sched.THOROUGH_NOTE + ". ") + ("stateless exploration of the real Doist/DoDoer/Doer code: every doer forest shape in the tier's shape set x "
            "every execution with <= %d deviations from the default answers (config tock/start/limit in {None,2T,2.5T,0.3,T,3T}, leaf kind, per-step yielded tock / return True/False/None / raise / complete-in-enter). Oracle: statement-derived: no-limit run returns right after the cycle of the last completion with done True; with limit L it stops after the first cycle whose end tyme >= start+L, done True only if nothing was alive; doer.done False inside enter, equals returned value after self-completion, never True otherwise. "
            "distinct_nontrivial = executions with >=1 deviation whose full event trace was not seen before." % BOUND(tier))


def EXHAUSTIVE(tier):
    return False


def jobs(tier):
    if tier == "quick":
        sh = sched.shapes(2, maxtop=3, maxleaves=3, always=True)
    else:
        sh = sched.thorough_shapes(always=True)
    sweep = [("C05", s, "sweep") for s in [("L",), ("L", "L"), (("D", True, ("L",)),), (("D", False, ("L", "L")),)]]
    return sharded(sweep, 8) + [("C05", s) for s in sh]      # the long sweep shards first


def harness(job, ch):
    w = sched.run(job, ch)
    return Outcome(obs=sched.summary(w), violations=sched_mon.c05(w), states=sched.state_seq(w),
                   sample=dict(shape=repr(job[1]), trace=[list(map(str, e[:3])) for e in w.trace[:30]]))


run_job, replay = standard(harness, BOUND, job_bound=sched.tier_bound)
