"""Real-LMDB harness pieces shared by C23 (durable queues/sets) and C24 (keyed sub-databases).

Everything lives in a private sandbox directory /dev/shm/vf_<tag>_<pid>_<n> that is created per job / per replay
and removed in a `finally` (Sandbox is a context manager).  hio is always given headDirPath=<sandbox>, temp=False so
nothing is created under /usr/local/var, ~/.hio or /tmp; `under()` turns hio's silent fall-back to ~/.hio into a
broken check instead of a verdict.
"""
import itertools
import os
import shutil

from . import treeguard

treeguard()
from dataclasses import dataclass  # noqa: E402

from hio.help import RegDom, IceRegDom  # noqa: E402
from hio.help.doming import registerify  # noqa: E402

SHM = "/dev/shm" if os.path.isdir("/dev/shm") and os.access("/dev/shm", os.W_OK) else "/var/tmp"   # scratch root, removed after use
_seq = itertools.count()


class Sandbox:
    def __init__(self, tag):
        self.tag = tag
        self.path = None

    def __enter__(self):
        sweep(self.tag)
        self.path = os.path.join(SHM, "vf_%s_%d_%d" % (self.tag, os.getpid(), next(_seq)))
        shutil.rmtree(self.path, ignore_errors=True)
        os.makedirs(self.path)
        return self

    def __exit__(self, *exc):
        shutil.rmtree(self.path, ignore_errors=True)
        return False

    def wipe(self):
        """empty the sandbox (between two runs of one job)"""
        for name in os.listdir(self.path):
            p = os.path.join(self.path, name)
            if os.path.isdir(p) and not os.path.islink(p):
                shutil.rmtree(p, ignore_errors=True)
            else:
                try:
                    os.remove(p)
                except OSError:
                    pass

    def under(self, path):
        """hio's Filer silently falls back to ~/.hio when it cannot create the directory: never accept that"""
        if not path or not os.path.abspath(path).startswith(self.path + os.sep):
            raise RuntimeError("store opened outside the sandbox: %r (sandbox %r)" % (path, self.path))
        return path


def sweep(tag):
    """remove sandboxes left behind by dead processes (a worker killed in mid job)"""
    prefix = "vf_%s_" % tag
    try:
        names = os.listdir(SHM)
    except OSError:
        return
    for name in names:
        if not name.startswith(prefix):
            continue
        parts = name[len(prefix):].split("_")
        if parts and parts[0].isdigit() and not os.path.exists("/proc/%s" % parts[0]):
            shutil.rmtree(os.path.join(SHM, name), ignore_errors=True)


def site_of(ex):
    """innermost hio frame of an exception as module:qualname (no line numbers)"""
    tb = ex.__traceback__
    site = "?"
    while tb is not None:
        fn = tb.tb_frame.f_code.co_filename
        if "/hio/" in fn and "/verif/" not in fn:
            mod = fn.split("/hio/", 1)[1][:-3].replace("/", ".")
            site = "%s:%s" % (mod, getattr(tb.tb_frame.f_code, "co_qualname", tb.tb_frame.f_code.co_name))
        tb = tb.tb_next
    return site


def raw_items(env, sdb):
    """independent read-back of a whole sub-database straight through the lmdb binding: [(key bytes, val bytes)]"""
    with env.begin(db=sdb, write=False) as txn:
        return [(bytes(k), bytes(v)) for k, v in txn.cursor()]


def raw_drop(env, sdb):
    """empty a sub-database straight through the lmdb binding"""
    with env.begin(write=True) as txn:
        txn.drop(sdb, delete=False)


# ---- registered value classes (registration must happen once per process: registerify raises on a second one) ----
if "VfIce" in IceRegDom._registry:
    VfIce = IceRegDom._registry["VfIce"]
else:
    @registerify
    @dataclass(frozen=True)
    class VfIce(IceRegDom):
        """frozen registered value"""
        v: int = 0

if "VfReg" in RegDom._registry:
    VfReg = RegDom._registry["VfReg"]
else:
    @registerify
    @dataclass
    class VfReg(RegDom):
        """mutable registered value (hash defined as hio's own mutable doms do, so it can live in an ordered set)"""
        v: int = 0

        def __hash__(self):
            return hash((self.__class__.__name__,) + self._astuple())
