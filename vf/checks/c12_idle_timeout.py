"""C12 - idle HTTP connections time out after the configured tymeout (all activity timings, virtual tyme)."""
from .. import tcpsys, treeguard
from ..env import fakenet
from ..explore import Outcome, standard, sharded

treeguard()
from hio.base import tyming  # noqa: E402
from hio.core import http  # noqa: E402
from hio.core.tcp import serving as tcpserving  # noqa: E402

PID = "C12"
LEVEL = "model_checking"
ASSUMPTIONS = [
    "kernel replaced by FakeNet; virtual tyme from a harness-owned Tymist advanced in ticks of 0.5 s, one server.service() per tick",
    "traffic is stamped with the tyme of the service call in which the server read or wrote bytes of that connection",
    "strict reading of the statement: an idle, non-persistent connection is closed by the first service call at tyme >= last traffic + tymeout",
]
REQ = b"GET /idle HTTP/1.0\r\nHost: localhost\r\nX-Pad: aaaaaaaaaaaaaaaaaaaaaaaaaaaaaaaa\r\n\r\n"
# an HTTP/1.1 request that declines persistence: its head arrives whole, its body trickles in and stalls short of its length
HEAD11 = b"POST /idle HTTP/1.1\r\nHost: localhost\r\nConnection: close\r\nContent-Length: 40\r\n\r\n"
HEAD11TE = HEAD11.replace(b"Connection: close", b"Connection: TE, close")     # the close option among several
BODY11 = b"b" * 40
APPFEED = [b""]     # what the streaming application yields at its next step (set by the harness tick by tick)
TICK = 0.5


def BOUND(tier):
    return None


def RULE(tier):
    return ("real http.Server (plain and TLS servant) over FakeNet wound to a virtual Tymist; tymeout 1.0 (horizon 9 ticks, per tick "
            "the client is silent / sends 1 / sends 2 bytes of a long HTTP/1.0 request: all 3^9 timings) and tymeout 2.5 (horizon "
            "%d ticks, silent / 1 byte: all 2^%d timings). Oracle per tick: the connection is closed (peer sees EOF, tables empty) "
            "exactly when the server serviced at tyme >= last traffic + tymeout; a connection with traffic in every window is never "
            "closed. The same for the other direction: the whole request arrives at once and the response drains with the kernel "
            "accepting 0 / 1 / 2 bytes per tick; for the body of an HTTP/1.1 'Connection: close' (also 'TE, close') request trickling in after its head; and for a "
            "streaming application that yields nothing or one byte per service pass (all 2^n output timings), and for one that yields a byte at every pass while the client reads it or not. Also with the server wound to the clock only after the connection was accepted. Each "
            "with the servant built by http.Server from its own parameters and with a servant handed in that has a wire log attached. "
            "The tree of timings is enumerated completely." % ((13, 13) if tier == "quick" else (16, 16)))


def EXHAUSTIVE(tier):
    return True


def jobs(tier):
    long_ticks = 13 if tier == "quick" else 16
    js = [("C12", tls, 1.0, 9, 3, "up") for tls in (False, True)] + [("C12", tls, 2.5, long_ticks, 2, "up") for tls in (False, True)]
    # server-to-client direction: the response drains slowly (kernel accepts 0 or a few bytes per tick)
    js += [("C12", tls, 1.0, 9, 3, "down") for tls in (False, True)] + [("C12", tls, 2.5, long_ticks, 2, "down") for tls in (False, True)]
    # the body of an HTTP/1.1 'Connection: close' request trickling in after its head
    js += [("C12", tls, 1.0, 9, 3, "body") for tls in (False, True)] + [("C12", tls, 2.5, long_ticks, 2, "body") for tls in (False, True)]
    # each of them with the servant built by http.Server itself, and with a servant handed in that has a wire log attached
    js = [j + (build,) for j in js for build in ("own", "given+wl")]
    for tls in (False, True):
        for tymeout, nt, no in ((1.0, 9, 3), (2.5, long_ticks, 2)):
            # the close option as one of several connection options
            js.append(("C12", tls, tymeout, nt, no, "body-te", "own"))
            # the server is wound to the clock only after the connection was accepted
            js.append(("C12", tls, tymeout, nt, no, "up", "own+latewind"))
            # a streaming application that yields nothing (b'') or one byte per service pass: all 2^n output timings
            for build in ("own", "given+wl"):
                js.append(("C12", tls, tymeout, nt, 2, "app", build))
            # the application produces a byte at every pass, the client reads or does not (kernel accepts 1 / 0 bytes): bytes
            # queued in the server but not moving are not traffic
            js.append(("C12", tls, tymeout, nt, 2, "appdown", "own"))
    return sharded(js, 8)


def app(environ, start_response):
    if environ.get("PATH_INFO") == "/stream":      # never ends on its own: one step per service pass
        start_response("200 OK", [("Content-Type", "text/plain")])
        return _stream()
    start_response("200 OK", [("Content-Length", "2")])
    return [b"ok"]


def _stream():
    while True:
        yield APPFEED[0]


REQSTREAM = b"GET /stream HTTP/1.0\r\nHost: localhost\r\n\r\n"


class DrainPolicy(fakenet.Policy):
    """server side sends are limited to `allow` bytes per call (0 == would block)"""

    def __init__(self):
        self.allow = None

    def send(self, sock, n):
        if sock.kind == "accepted" and self.allow is not None:
            return min(n, self.allow)
        return n


def harness(job, ch):
    _, tls, tymeout, nticks, nopts, direction = job[:6]
    build = job[6] if len(job) > 6 and isinstance(job[6], str) else "own"
    pol = DrainPolicy()
    net = fakenet.Net(pol)
    viol, states = [], []
    tymist = tyming.Tymist(tyme=0.0, tock=TICK)
    with fakenet.Installed(net):
        kw = dict(port=6101, tymeout=tymeout, app=app)
        if build.startswith("own"):       # http.Server builds its servant from its own parameters
            if tls:
                server = http.Server(host="127.0.0.1", scheme="https", context=fakenet.FakeSSLContext(net), **kw)
            else:
                server = http.Server(host="127.0.0.1", **kw)
        else:
            from hio.core import wiring
            wl = wiring.WireLog(samed=False, filed=False, fmt=b"%(data)b", name="c12")
            wl.reopen()
            if tls:
                servant = tcpserving.ServerTls(context=fakenet.FakeSSLContext(net), host="127.0.0.1", port=6101, tymeout=tymeout,
                                               tymth=tymist.tymen(), wl=wl)
            else:
                servant = tcpserving.Server(host="127.0.0.1", port=6101, tymeout=tymeout, tymth=tymist.tymen(), wl=wl)
            server = http.Server(servant=servant, **kw)
        if build != "own+latewind":
            server.wind(tymist.tymen())
        escaped = None
        assert server.reopen()
        raw = net.socket()
        raw.owner = "raw"
        raw.connect_ex(("127.0.0.1", 6101))
        try:
            server.service()          # accept (+ handshake) at tyme 0
        except Exception as ex:
            escaped = (tcpsys.site_of(ex), type(ex).__name__)
        if build == "own+latewind":   # the clock arrives after the connection
            server.wind(tymist.tymen())
        APPFEED[0] = b""
        last = 0.0                    # tyme of last traffic (connection establishment counts)
        sent = 0
        req = REQ
        if direction in ("body", "body-te"):       # the head is there from the start (tyme 0), the body is what trickles
            req = BODY11
            raw.send(HEAD11 if direction == "body" else HEAD11TE)
            try:
                server.service()
            except Exception as ex:
                escaped = (tcpsys.site_of(ex), type(ex).__name__)
        pattern = []
        closed_at = None
        for k in range(nticks):
            tymist.tick()
            t = tymist.tyme
            if direction == "appdown":
                if k == 0:
                    raw.send(REQSTREAM)
                n = ch.choose(nopts, "tick%d" % k)
                pattern.append(n)
                APPFEED[0] = b"x"
                pol.allow = n
            elif direction == "app":
                if k == 0:
                    raw.send(REQSTREAM)
                n = ch.choose(nopts, "tick%d" % k)
                pattern.append(n)
                APPFEED[0] = b"x" if n else b""
            elif direction in ("up", "body", "body-te"):
                n = ch.choose(nopts, "tick%d" % k) if sent < len(req) else 0
                pattern.append(n)
                if n and not raw.rx_eof and not raw.closed:
                    try:
                        raw.send(req[sent:sent + n])
                        sent += n
                    except OSError:
                        pass
            else:
                if k == 0:
                    raw.send(REQ)          # whole request at once; the response then drains slowly
                n = ch.choose(nopts, "tick%d" % k)
                pattern.append(n)
                pol.allow = n              # bytes the kernel accepts from the server in this tick
            srv_sock = raw.peer
            tx_before = len(srv_sock.sent) if srv_sock is not None else 0
            rx_before = len(srv_sock.delivered) if srv_sock is not None else 0
            try:
                server.service()
            except Exception as ex:
                escaped = (tcpsys.site_of(ex), type(ex).__name__)
                break
            traffic = srv_sock is not None and (len(srv_sock.sent) != tx_before or len(srv_sock.delivered) != rx_before)
            closed = (srv_sock is None) or srv_sock.closed
            in_tables = bool(server.servant.ixes) or bool(getattr(server.servant, "cxes", {})) or bool(server.reqs)
            states.append((k, n, traffic, closed, in_tables, round(t - last, 3)))
            complete = sent >= len(req) if direction in ("up", "body", "body-te") else False
            if complete:
                break                  # request fully delivered: the exchange ends by the non-persistent rule, not by idleness
            idle_for = t - last        # before accounting this tick's traffic
            if traffic:
                last = t
            if closed and closed_at is None:
                closed_at = t
                if idle_for < tymeout:   # (bytes flushed by the closing call itself are not traffic that keeps it alive)
                    viol.append(("closed-while-active:%s%s" % ("tls" if tls else "plain", ":response-draining" if direction == "down" else ":body" if direction.startswith("body") else ":app-streaming" if direction.startswith("app") else ""),
                                 "tymeout %s: connection closed at tyme %s, last traffic at %s (pattern %s)" % (tymeout, t, last if traffic else t - idle_for, pattern)))
                if in_tables:
                    viol.append(("closed-but-in-tables", "socket closed at %s but server tables still hold the connection" % t))
                break
            if not closed and not traffic and idle_for >= tymeout:
                viol.append(("idle-not-closed:%s:%s%s" % ("late" if _closes_later(server, tymist, raw, 8) else "never", "tls" if tls else "plain",
                                                           ":response-stalled" if direction == "down" else ":body-stalled" if direction.startswith("body") else ":app-stalled" if direction == "app" else ":app-output-not-moving" if direction == "appdown" else ""),
                             "tymeout %s: no traffic since tyme %s, serviced at %s, connection still open (pattern %s)" % (tymeout, last, t, pattern)))
                break
        if escaped:
            viol.append(("escape:%s:%s" % escaped, "server.service raised %s at %s" % (escaped[1], escaped[0])))
        obs = (tuple(states), closed_at)
    return Outcome(obs=obs, violations=viol, states=states,
                   sample=dict(tls=tls, tymeout=tymeout, bytes_per_tick=pattern, closed_at=closed_at))


def _closes_later(server, tymist, raw, n):
    for _ in range(n):
        tymist.tick()
        try:
            server.service()
        except Exception:
            return False
        if raw.peer is None or raw.peer.closed:
            return True
    return False


run_job, replay = standard(harness, BOUND)
