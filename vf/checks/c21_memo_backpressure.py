"""C21 - memo transmission loses no gram under transport backpressure."""
import errno
from contextlib import contextmanager

from .. import memosys as ms
from ..storesys import Sandbox
from ..explore import Outcome, explore_job, replay as _replay, sharded

from hio.core.memo.memoing import Memoer
from hio.core.udp.peermemoing import PeerMemoer
from hio.core.uxd.peermemoing import PeerMemoer as UxdPeerMemoer

PID = "C21"
LEVEL = "fault_enumeration"
ASSUMPTIONS = [
    "system 'base': hio Memoer whose transport stub send(gram, dst) is overridden by the enumerated answers; system 'udp': real "
    "udp.PeerMemoer (Peer.send errno mapping included) over a fake datagram socket installed as hio.core.udp.udping.socket whose "
    "sendto gives the enumerated answers (a datagram kernel never accepts part of a datagram; partial counts are included because "
    "the statement quantifies over them); system 'uxd': real uxd.PeerMemoer (uxd Peer.send errno mapping) over the same fake "
    "datagram socket installed as hio.core.uxd.uxding.socket, its Filer directory made in a private sandbox (TempHeadDir overridden)",
    "grams are queued with gramit() (raw distinct byte strings of 4..6 bytes; in the 'shared' jobs ONE bytearray object queued for "
    "every entry, as a caller fanning a gram out does) on the real txgs queue; the transmit side is driven "
    "through the public service calls only: service() (greedy, what MemoerDoer.recur calls) or serviceAllOnce() (one send per round)",
    "unreachable-class errnos are those Memoer._serviceOnceTxGrams documents as 'far peer problem' (ECONNREFUSED, EHOSTUNREACH here; "
    "all ten in a single-fault sweep); an unreachable answer drops the rest of the gram in flight and nothing else",
    "the oracle is per destination and does not prescribe how sends to different destinations are scheduled",
]
DA, DB = ("10.0.0.1", 7001), ("10.0.0.2", 7002)
UA, UB = "/vf/uxd/peerA", "/vf/uxd/peerB"     # unix domain destinations are paths (never touched: the socket is fake)
SYSTEMS = ("base", "udp", "uxd")


def dname(d):
    return d[1] if isinstance(d, tuple) else d.rsplit("/", 1)[1]
GRAMS = [b"g0:A", b"g1:BB", b"g2:CCC"]
LAYOUTS = [
    [0, 0],
    [0, 1],
    [0, 0, 0],
    [0, 1, 0],
    [0, 0, 1],
    [1, 0, 0],
    [0, 0, 0],      # (index 6) as [0, 0, 0] with an EMPTY gram in the middle: offered once, done whatever the answer, the rest goes on
]
EMPTY_AT = {6: 1}
UNREACH = [errno.ECONNREFUSED, errno.EHOSTUNREACH, errno.ENOENT, errno.ECONNRESET, errno.ENETRESET, errno.ENETUNREACH,
           errno.ENETDOWN, errno.EHOSTDOWN, errno.ETIMEDOUT, errno.ETIME]
# answer kinds: ("n", how) accepts a byte count, ("e", errno) raises
BASE_KINDS = [("n", "all"), ("n", "zero"), ("n", "one"), ("n", "len-1"), ("e", errno.ECONNREFUSED), ("e", errno.EHOSTUNREACH)]
UDP_KINDS = [("n", "all"), ("e", errno.EAGAIN), ("e", errno.ENOBUFS), ("n", "one"), ("n", "len-1"), ("n", "zero"),
             ("e", errno.ECONNREFUSED), ("e", errno.EHOSTUNREACH)]


def DEPTH(tier):
    return 4 if tier == "quick" else 6


def BOUND(tier):
    return None


def RULE(tier):
    return ("%d layouts of 2-3 grams to 1-2 destinations x {base Memoer with scripted send, udp PeerMemoer and uxd PeerMemoer over a fake datagram socket} "
            "x {greedy service(), one-send-per-round serviceAllOnce()}: the FULL tree of answers to the first %d transport sends "
            "(accept all / 0 / 1 / len-1 bytes, would-block errnos EAGAIN and ENOBUFS for udp/uxd, unreachable errnos ECONNREFUSED and "
            "EHOSTUNREACH), every later send accepts everything, servicing continues for 2*grams+4 further rounds; plus a sweep "
            "placing each of the 10 unreachable-class errnos at each of the first 3 sends. The tree is grown lazily (an answer is only "
            "enumerated when a send actually happens) so every execution is a distinct answer history. Oracle per destination: every "
            "send offers exactly the unsent rest of the oldest unfinished gram for that destination; at the horizon every gram was "
            "accepted in full or dropped by an unreachable answer, txgs and txbs are empty." % (len(LAYOUTS), DEPTH(tier)))


def EXHAUSTIVE(tier):
    return True


def jobs(tier):
    js = []
    for system in SYSTEMS:
        for greedy in (True, False):
            for li in range(len(LAYOUTS)):
                js.append(("tree", system, greedy, li, DEPTH(tier)))
    for system in SYSTEMS:          # the same bytearray object queued to two destinations / twice to one
        for greedy in (True, False):
            for li in (0, 1):
                js.append(("tree", system, greedy, li, DEPTH(tier), "shared"))
    js = sharded(js, 2 if tier == "quick" else 8)
    for system in SYSTEMS:
        for greedy in (True, False):
            js.append(("errnos", system, greedy, 3))
    return js


class World:
    """reference bookkeeping shared by both systems: per-destination ideal sender fed with the observed calls and answers"""

    def __init__(self, layout, answer_kind, pair=(DA, DB), shared=False, empty=None):
        self.answer_kind = answer_kind      # callable(ncall, n) -> ("n", count) | ("e", errno)
        self.dsts = [pair[0] if d == 0 else pair[1] for d in layout]
        self.grams = [GRAMS[0 if shared else i] for i in range(len(layout))]   # shared: one gram object fanned out to every entry
        if empty is not None and not shared:
            self.grams[empty] = b""
        self.pending = {}                   # dst -> list of [gram index, remaining bytes]
        for i, d in enumerate(self.dsts):
            self.pending.setdefault(d, []).append([i, self.grams[i]])
        self.accepted = {d: bytearray() for d in self.pending}
        self.viols = []
        self.calls = []
        self.lastkind = {}                  # dst -> label of the previous answer for that destination
        self.desync = False
        self.ncall = 0

    def label(self, kind):
        if kind[0] == "e":
            return errno.errorcode.get(kind[1], str(kind[1]))
        return kind[1]

    def on_send(self, data, dst):
        """called by the transport for each send; returns count or negative errno"""
        data = bytes(data)
        self.ncall += 1
        if self.ncall > 200:
            raise ms.Hang("send called more than 200 times")
        q = self.pending.get(dst)
        if not self.desync:
            if not q:
                self.desync = True
                self.viols.append(("send-unexpected:nothing-pending:after-%s" % self.lastkind.get(dst, "start"),
                                   "send #%d offers %r to %r although nothing is pending for it" % (self.ncall, data, dst)))
            elif data != q[0][1]:
                self.desync = True
                later = [i for i, rest in q[1:] if rest == data]
                gi, rest = q[0]
                if later:
                    cls = "skips-gram"
                elif self.grams[gi].endswith(data) or self.grams[gi] == data:
                    cls = "resends-or-skips-bytes"
                else:
                    cls = "garbled"
                self.viols.append(("send-%s:after-%s" % (cls, self.lastkind.get(dst, "start")),
                                   "send #%d to %r offers %r but the unsent rest of the oldest unfinished gram is %r (calls so far %r)" % (
                                       self.ncall, dst, data, rest, self.calls)))
        n = len(data)
        kind = self.answer_kind(self.ncall, n)
        if kind[0] == "n":
            cnt = {"all": n, "zero": 0, "one": min(1, n), "len-1": max(n - 1, 0)}[kind[1]]
            lab = "all" if cnt == n else ("zero" if cnt == 0 else "partial")
        else:
            cnt = -kind[1]
            lab = self.label(kind)
            if kind[1] in UNREACH:
                lab = "unreachable"
            elif kind[1] in (errno.EAGAIN, errno.ENOBUFS):
                lab = "would-block"
        self.calls.append((data.decode("latin-1"), dname(dst), self.label(kind)))
        self.lastkind[dst] = lab
        if not self.desync:
            if n == 0:
                q.pop(0)       # an empty gram has nothing left to send whatever the transport answers
            elif cnt >= 0:
                self.accepted[dst] += data[:cnt]
                q[0][1] = q[0][1][cnt:]
                if not q[0][1]:
                    q.pop(0)
            elif -cnt in UNREACH:
                q.pop(0)       # the gram in flight is dropped, nothing else
        return cnt


class ScriptedMemoer(Memoer):
    """transport stub overridden: answers come from the world"""
    world = None

    def send(self, gram, dst, *, echoic=False):
        ans = self.world.on_send(gram, dst)
        if ans >= 0:
            return ans
        raise OSError(-ans, "scripted: " + errno.errorcode.get(-ans, "?"))


class UxdPM(UxdPeerMemoer):
    TempHeadDir = None


_SB = None


@contextmanager
def _uxd_sandbox():
    """the job's sandbox when run_job opened one, else a private one (replay)"""
    if _SB is not None:
        yield _SB
    else:
        with Sandbox("c21uxd") as sb:
            yield sb


def run_world(system, greedy, li, answer_kind, extra_rounds, shared=False):
    layout = LAYOUTS[li]
    w = World(layout, answer_kind, pair=(UA, UB) if system == "uxd" else (DA, DB), shared=shared, empty=EMPTY_AT.get(li))
    escaped = None
    states = []

    def drive(peer):
        nonlocal escaped
        obj = bytearray(w.grams[0]) if shared else None     # ONE bytearray object queued for every entry (fan-out by the caller)
        for i, g in enumerate(w.grams):
            peer.gramit(obj if shared else g, w.dsts[i])
        rounds = extra_rounds + 2 * len(layout) + 4
        try:
            with ms.alarm():
                for r in range(rounds):
                    if greedy:
                        peer.service()
                    else:
                        peer.serviceAllOnce()
                    states.append((len(peer.txgs), len(peer.txbs[0]), peer.txbs[1] is None, w.ncall))
        except BaseException as ex:
            if isinstance(ex, (KeyboardInterrupt, SystemExit)):
                raise
            escaped = ex
        return peer

    if system == "base":
        peer = ScriptedMemoer()
        peer.world = w
        peer.reopen()
        drive(peer)
    elif system == "udp":
        ns = ms.FakeDgramNamespace(w.on_send)
        with ms.udp_installed(ns):
            peer = PeerMemoer(name="vf", ha=("127.0.0.1", 40001))
            assert peer.reopen() and peer.opened
            try:
                drive(peer)
            finally:
                peer.close()
    else:
        ns = ms.FakeDgramNamespace(w.on_send)
        with ms.uxd_installed(ns):
            with _uxd_sandbox() as sb:
                sb.wipe()
                UxdPM.TempHeadDir = sb.path        # the Filer part of uxd.Peer makes its directory here (temp=True)
                peer = UxdPM(name="vf", temp=True, reopen=False)
                assert peer.reopen() and peer.opened
                sb.under(peer.path)
                try:
                    drive(peer)
                finally:
                    peer.close(clear=True)
    tag = system
    mode = "greedy service()" if greedy else "serviceAllOnce()"
    viols = [("%s:%s" % (k, tag), "%s [%s]" % (m, mode)) for k, m in w.viols]
    if escaped is not None:
        if isinstance(escaped, ms.Hang):
            viols.append(("hang:tx-service:%s" % tag, "servicing does not terminate: %s [%s]" % (escaped, mode)))
        else:
            name = errno.errorcode.get(escaped.errno, "?") if isinstance(escaped, OSError) and escaped.errno else type(escaped).__name__
            viols.append(("escape:%s:%s:%s" % (ms.site_of(escaped), name, tag), "%s raised %r after calls %r" % (mode, escaped, w.calls)))
    elif not w.desync:
        left = {dname(d): [(i, rest.decode()) for i, rest in q] for d, q in sorted(w.pending.items()) if q}
        txbs_rest, txbs_dst = bytes(peer.txbs[0]), peer.txbs[1]
        if left:
            firstdst = [d for d, q in sorted(w.pending.items()) if q][0]
            if txbs_dst is not None and not peer.txgs:
                cls = "rest-in-txbs-never-retried"
            elif txbs_dst is not None:
                cls = "rest-in-txbs-and-queue"
            elif peer.txgs:
                cls = "queue-not-served"
            else:
                cls = "gram-vanished-after-%s" % w.lastkind.get(firstdst, "start")
            viols.append(("unsent-at-horizon:%s:%s" % (cls, tag),
                          "after %d rounds of %s (all sends after #%d accept everything) still unsent %r; txgs=%d txbs=(%r, %r); calls %r" % (
                              len(states), mode, w.ncall, left, len(peer.txgs), txbs_rest, txbs_dst, w.calls)))
        elif peer.txgs or txbs_dst is not None or txbs_rest:
            viols.append(("buffers-not-empty-at-horizon:%s" % tag, "everything accepted but txgs=%d txbs=(%r, %r) [%s]" % (
                len(peer.txgs), txbs_rest, txbs_dst, mode)))
    obs = (tuple(w.calls), tuple(sorted((dname(d), bytes(b)) for d, b in w.accepted.items())), tuple(sorted(k for k, _ in viols)))
    return Outcome(obs=obs, violations=viols, states=states,
                   sample=dict(system=system, greedy=greedy, layout=layout, calls=w.calls[:8],
                               accepted={str(dname(d)): bytes(b).decode() for d, b in w.accepted.items()}))


def harness(job, ch):
    kind, system, greedy = job[0], job[1], job[2]
    if kind == "tree":
        li = job[3]
        kinds = BASE_KINDS if system == "base" else UDP_KINDS     # udp and uxd share the datagram answer alphabet
        depth = job[4]

        def answer_kind(ncall, n):
            if ncall > depth:
                return ("n", "all")
            return kinds[ch.choose(len(kinds), "send%d" % ncall)]
        return run_world(system, greedy, li, answer_kind, depth, shared=(len(job) > 5 and job[5] == "shared"))
    # single unreachable errno at one of the first `job[3]` sends, over all layouts
    li = ch.choose(len(LAYOUTS), "layout", cost=0)
    pos = 1 + ch.choose(job[3], "position", cost=0)
    en = UNREACH[ch.choose(len(UNREACH), "errno", cost=0)]

    def answer_kind(ncall, n):
        return ("e", en) if ncall == pos else ("n", "all")
    return run_world(system, greedy, li, answer_kind, 3)


def run_job(job, tier, seed):
    global _SB
    if job[1] != "uxd":
        return explore_job(harness, job, bound=None, seed=seed)
    with Sandbox("c21uxd") as sb:
        _SB = sb
        try:
            return explore_job(harness, job, bound=None, seed=seed)
        finally:
            _SB = None


def replay(job, choices):
    ch, out = _replay(harness, job, choices)
    return list(out.violations)
