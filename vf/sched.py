"""Closed system for the scheduler group (C01-C06, C30).

A real hio Doist (virtual time) runs a forest of scripted doers.  Every leaf asks
the explorer what to do at every resumption.  All lifecycle events go to one
global trace; monitors (one per property) judge the trace.

Shapes:  'L'                      leaf
         ('D', always, (kids...)) DoDoer with tock 0
A job is (mode, shape_tuple) where shape_tuple is the tuple of top-level entries.
"""
from collections import deque

from . import treeguard

treeguard()
from hio.base import doing  # noqa: E402

T_DEFAULT = 1.0
MAXCYCLES = 150


class Horizon(Exception):
    pass


# ---------------------------------------------------------------------------
# alphabets per mode

def tocks(T, extra=False):
    """extra: tocks above the scheduler tock that are not multiples of it (a lagging due tyme then crosses a cycle boundary)"""
    return [None, 0.5 * T, T, 2 * T, 0.1] + ([1.5 * T, 2.5 * T] if extra else [])


class Mode:
    """Which deviations a property's exploration uses."""

    def __init__(self, name, tocks=True, rets=True, raises=False, kbd=False, enterfail=False,
                 enterdone=False, ext=(), rem=(), kinds=(0, 1, 2, 3, 4), cfg=True, horizon=3,
                 limits=(None, 2.0, 2.5, 0.3), always=False, stale_done=False, xtocks=False, callcfg=False, tockset=(), handdrive=False, rerun=False, prerun=False, sysexit=False, stale=False, dupdoer=False):
        self.name = name
        self.tocks, self.rets, self.raises, self.kbd = tocks, rets, raises, kbd
        self.enterfail, self.enterdone = enterfail, enterdone
        self.ext, self.rem = tuple(ext), tuple(rem)
        self.kinds, self.cfg, self.horizon, self.limits = tuple(kinds), cfg, horizon, limits
        self.always = always
        self.stale_done = stale_done
        self.xtocks = xtocks
        self.callcfg = callcfg     # limit and start tyme may be given to do()/ado() instead of the constructor
        self.tockset = tuple(tockset)   # with tocks=False: the only yielded tocks offered (multiples of T), e.g. "not due at the stop"
        self.prerun = prerun            # the same doer objects may have been run to completion before, by another Doist on another tyme base
        self.stale = stale              # the scheduler may hold a deed left over from before the run (extend() on the idle Doist); a run given its doers starts from those only
        self.dupdoer = dupdoer          # the first doer may be listed twice (two deeds of one doer)
        self.sysexit = sysexit          # a doer may call sys.exit() in its recur
        self.rerun = rerun              # the same scheduler may be run a second time, without arguments, right after the first run
        self.handdrive = handdrive      # the run may be driven by hand: enter(doers=) / recur(deeds=) / exit(deeds=) on an explicit deque


MODES = {
    "C01": Mode("C01", prerun=True, raises=True, kbd=True, enterfail=True, enterdone=True, handdrive=True,
                ext=("fresh", "failing", "uncle"), rem=("self", "prev", "next", "far", "uncle"), always=True),
    "C02": Mode("C02", prerun=True, tocks=False, rets=True, raises=True, enterfail=True, tockset=(2.0,), handdrive=True,
                ext=("fresh", "failing", "two", "uncle"), rem=("prev", "next", "parent", "far", "alias", "dupnext", "uncle"), always=True,
                limits=(None, 2.0, 1.0)),
    "C03": Mode("C03", prerun=True, horizon=4, limits=(None, 2.5), xtocks=True),
    "C04": Mode("C04", prerun=True, raises=True, horizon=3, limits=(None, 2.0, 2.5)),
    "C05": Mode("C05", prerun=True, raises=True, enterdone=True, always=True, stale_done=True, limits=(None, 2.0, 2.5, 0.3, 1.0, 3.0),
                ext=("uncle", "fresh"), callcfg=True, stale=True),
    "C06": Mode("C06", prerun=True, tocks=True, rets=True, enterdone=True, ext=("fresh", "present", "dup", "done", "redo", "uncle"),
                rem=("self", "prev", "next", "far", "alias", "dupnext", "pairrev", "done", "absent"), always=True, kinds=(0, 2, 4),
                limits=(None, 3.0, 2.0)),
    "C30": Mode("C30", raises=True, enterdone=True, limits=(None, 2.0, 2.5)),
}


# ---------------------------------------------------------------------------
# world

class World:
    def __init__(self, job, ch, mode=None, table=None):
        self.job = job
        self.mode = mode or MODES[job[0]]
        self.ch = ch
        self.table = table        # when given: decisions are looked up, not chosen (C04/C30 re-runs)
        self.table_miss = []
        self.trace = []
        self.cycle = 0
        self.decisions = {}       # leaf name -> list of (phase, action)
        self.nodes = {}           # name -> node (leaf or dodoer)
        self.parent = {}          # name -> parent name ('' == doist)
        self.kind = {}
        self.order = []           # DFS order of names as built
        self.fresh = 0
        self.doist = None
        self.T = T_DEFAULT
        self.calls = []           # extend/remove call records for C06
        self.enter_done = {}      # name -> value of doer.done observed inside enter
        self.muted = False        # True while the doers are taken through an earlier, unobserved run

    # logging ------------------------------------------------------------
    def log(self, name, ev, *extra):
        if self.muted:
            return
        d = self.doist
        self.trace.append((name, ev, d.tyme if d is not None else None, self.cycle) + extra)

    # decisions ----------------------------------------------------------
    def alts(self, leaf, phase):
        m = self.mode
        kind = self.kind[leaf.name]
        T = self.T
        if phase == "enter":
            a = [("ok",)]
            if m.enterfail:
                a.append(("raise", "V"))
            if m.enterdone:
                a.append(("done", True))
                if kind in (2, 3, 4):      # a generator function may return before its first yield, with or without a value
                    a.append(("done", None))
                    a.append(("done", False))
            return a
        k = phase
        last = k >= leaf.horizon - 1
        a = [("ret", getattr(leaf, "lastret", True))] if last else [("y", getattr(leaf, "basetock", 0.0))]
        if m.tocks and not last:
            for t in tocks(T, m.xtocks):
                if t is None and kind == 0:
                    continue
                a.append(("y", t))
        elif m.tockset and not last:
            for mult in m.tockset:
                a.append(("y", mult * T))
        if m.rets:
            if not last:
                a.append(("ret", True))
            if kind != 0:
                a.append(("ret", False))
                a.append(("ret", None))
        if m.raises:
            a.append(("raise", "V"))
        if m.kbd and kind in (0, 1):
            a.append(("raise", "K"))
        if m.sysexit:
            a.append(("raise", "S"))
        if not last and not leaf.fresh:
            sibs = self.siblings(leaf)
            i = sibs.index(leaf.name)
            uncle = self.uncle_of(leaf) is not None
            for e in m.ext:
                if e == "uncle" and not uncle:
                    continue
                a.append(("ext", e))
            for r in m.rem:
                if r == "uncle" and not uncle:
                    continue
                if r == "far" and max(i, len(sibs) - 1 - i) < 2:
                    continue
                a.append(("rem", r))
        return a

    def uncle_of(self, leaf):
        """first sibling of the leaf that is a DoDoer (another scheduler the leaf may reach into), or None"""
        for n in self.siblings(leaf):
            if n != leaf.name and self.kind.get(n) == "D" and not self.exited(n) and not any(
                    e[0] == n and e[1] in ("cease", "abort", "clean", "exit_begin") for e in self.trace):
                return self.nodes[n]     # a DoDoer that is running (reaching into a closed one is a caller's error)
        return None

    def decide(self, leaf, phase):
        if self.table is not None:
            lst = self.table.get(leaf.name, [])
            i = len(self.decisions.setdefault(leaf.name, []))
            if i < len(lst) and lst[i][0] == phase:
                act = lst[i][1]
            else:
                self.table_miss.append((leaf.name, phase))
                act = ("ok",) if phase == "enter" else ("ret", True)
            self.decisions[leaf.name].append((phase, act))
            return act
        a = self.alts(leaf, phase)
        act = a[self.ch.choose(len(a), "%s@%s" % (leaf.name, phase))]
        self.decisions.setdefault(leaf.name, []).append((phase, act))
        return act

    # extend / remove driven from inside a leaf ----------------------------
    def owner_of(self, leaf):
        p = self.parent[leaf.name]
        return self.doist if p == "" else self.nodes[p]

    def siblings(self, leaf):
        p = self.parent[leaf.name]
        return [n for n in self.order if self.parent.get(n) == p]

    def new_leaf(self, parentname, failing=False, kind=0, horizon=2, lastret=True):
        self.fresh += 1
        name = "x%d" % self.fresh
        leaf = make_leaf(self, name, kind, horizon=horizon, fresh=True)
        leaf.failing = failing
        leaf.lastret = lastret
        self.parent[name] = parentname
        self.order.append(name)
        return leaf

    def do_ext(self, leaf, what):
        owner = self.owner_of(leaf)
        pn = self.parent[leaf.name]
        sibs = self.siblings(leaf)
        if what == "fresh":
            arg = [self.new_leaf(pn)]
        elif what == "failing":       # second new doer fails in enter
            arg = [self.new_leaf(pn), self.new_leaf(pn, failing=True)]
        elif what == "two":
            arg = [self.new_leaf(pn), self.new_leaf(pn)]
        elif what == "uncle":         # reach into a sibling DoDoer (not mid-pass): a generator-function doer that makes one
            owner = self.uncle_of(leaf)                        # recur and returns without a value
            pn = owner.name
            arg = [self.new_leaf(pn, kind=2, horizon=1, lastret=None)]
        elif what == "present":
            # a sibling that is a member right now (a self-removed, still running doer is not "present")
            members = [name_of(x) for x in owner.doers]
            others = [n for n in sibs if n != leaf.name and n in members]
            arg = [self.nodes[others[0]].doer] if others else ([leaf.doer] if leaf.name in members else [])
        elif what == "dup":
            x = self.new_leaf(pn)
            arg = [x, x]
        elif what == "redo":          # take a sibling that already completed out of the scheduler and add it again (a second life)
            donesibs = [n for n in sibs if n != leaf.name and self.exited(n)]
            if donesibs:
                self.do_rem(leaf, "done")
                arg = [self.nodes[donesibs[0]].doer]
            else:
                arg = [self.new_leaf(pn)]
        elif what == "done":          # re-add a sibling that already completed (if any), else a fresh one
            donesibs = [n for n in sibs if n != leaf.name and self.exited(n)]
            arg = [self.nodes[donesibs[0]].doer] if donesibs else [self.new_leaf(pn)]
        else:
            raise AssertionError(what)
        arg = [getattr(x, "doer", x) for x in arg]
        arg = [fresh_ref(x) if name_of(x) in [name_of(d) for d in owner.doers] else x for x in arg]
        rec = dict(op="extend", by=leaf.name, owner=pn, what=what, args=[name_of(x) for x in arg], cross=(what == "uncle"),
                   before=[name_of(x) for x in owner.doers], t0=len(self.trace), cycle=self.cycle)
        self.calls.append(rec)
        try:
            owner.extend(arg)
        except BaseException as ex:
            rec["exc"] = type(ex).__name__
            rec["t1"] = len(self.trace)
            rec["after"] = [name_of(x) for x in owner.doers]
            raise
        rec["t1"] = len(self.trace)
        rec["after"] = [name_of(x) for x in owner.doers]

    def exited(self, name):
        return any(e[0] == name and e[1] == "exit" for e in self.trace)

    def do_rem(self, leaf, what):
        owner = self.owner_of(leaf)
        pn = self.parent[leaf.name]
        sibs = self.siblings(leaf)
        i = sibs.index(leaf.name)
        if what == "self":
            names = [leaf.name]
        elif what == "prev":
            names = [sibs[i - 1]] if i > 0 else []
        elif what == "next":
            names = [sibs[i + 1]] if i + 1 < len(sibs) else []
        elif what == "alias":         # the scheduler's own .doers list object as the argument: everybody is removed
            names = [name_of(x) for x in owner.doers]
        elif what == "far":           # the sibling farthest away (kept siblings lie between the caller and the removed one)
            names = [sibs[-1] if (len(sibs) - 1 - i) >= i else sibs[0]]
        elif what == "uncle":         # reach into a sibling DoDoer (not mid-pass) and remove its second child (first if single)
            owner = self.uncle_of(leaf)
            pn = owner.name
            kids = [n for n in self.order if self.parent.get(n) == pn]
            names = kids[1:2] or kids[:1]
        elif what == "pairrev":       # two other siblings, named in the reverse of their insertion order
            others = [n for n in sibs if n != leaf.name]
            names = [others[-1], others[0]] if len(others) >= 2 else others[-1:]
        elif what == "dupnext":
            names = [sibs[i + 1]] * 2 if i + 1 < len(sibs) else [sibs[i - 1]] * 2 if i > 0 else []
        elif what == "done":
            names = [n for n in sibs if n != leaf.name and self.exited(n)][:1]
        elif what == "absent":
            x = self.new_leaf(pn)
            self.parent[x.name] = "nowhere"
            names = [x.name]
        elif what == "parent":        # remove own parent DoDoer from the grandparent (closes self too)
            if pn == "":
                names = []
            else:
                gp = self.parent[pn]
                owner = self.doist if gp == "" else self.nodes[gp]
                names = [pn]
                pn = gp
        else:
            raise AssertionError(what)
        arg = [fresh_ref(self.nodes[n].doer) for n in names]
        if what == "alias":
            arg = owner.doers         # not a copy
        rec = dict(op="remove", by=leaf.name, owner=pn, what=what, args=names, cross=(what == "uncle"),
                   before=[name_of(x) for x in owner.doers], t0=len(self.trace), cycle=self.cycle)
        self.calls.append(rec)
        try:
            owner.remove(arg)
        except BaseException as ex:
            rec["exc"] = type(ex).__name__
            rec["t1"] = len(self.trace)
            rec["after"] = [name_of(x) for x in owner.doers]
            raise
        rec["t1"] = len(self.trace)
        rec["after"] = [name_of(x) for x in owner.doers]


def fresh_ref(doer):
    """a bound-method doer as user code gets it from a new attribute access: equal to, but not the
    same object as, the one the scheduler holds"""
    import types
    if isinstance(doer, types.MethodType):
        return types.MethodType(doer.__func__, doer.__self__)
    return doer


def name_of(doer):
    n = getattr(doer, "vfname", None)
    if n is None:
        n = getattr(getattr(doer, "__func__", None), "vfname", None)
    return n


# ---------------------------------------------------------------------------
# leaves.  Every kind exposes .name .horizon .fresh .doer (the object given to the scheduler)

class LeafBase:
    failing = False

    def script_enter(self):
        """returns True when the leaf is to complete inside enter"""
        w = self.w
        if w.muted:
            return False
        w.log(self.name, "enter")
        w.enter_done[self.name] = self.doer.done
        if self.failing:
            raise ValueError("enter of %s fails" % self.name)
        act = w.decide(self, "enter")
        if act[0] == "raise":
            raise ValueError("enter of %s raises" % self.name)
        self.enter_ret = act[1] if act[0] == "done" else None
        return act[0] == "done"

    def script_step(self, tyme):
        """returns ('y', tock) or ('ret', value); may raise"""
        w = self.w
        if w.muted:
            return ("ret", True)
        k = self.k
        self.k += 1
        w.log(self.name, "recur", tyme)
        act = w.decide(self, k)
        if act[0] == "raise":
            if act[1] == "K":
                raise KeyboardInterrupt()
            if act[1] == "S":
                raise SystemExit(3)
            raise ValueError("recur of %s raises" % self.name)
        if act[0] == "ext":
            w.do_ext(self, act[1])
            return ("y", 0.0)
        if act[0] == "rem":
            w.do_rem(self, act[1])
            return ("y", 0.0)
        return act


class PlainLeaf(LeafBase, doing.Doer):
    """kind 0: Doer subclass with plain recur"""

    def __init__(self, w, name, horizon, fresh):
        doing.Doer.__init__(self)
        self.w, self.name, self.vfname, self.horizon, self.fresh, self.k = w, name, name, horizon, fresh, 0
        self.doer = self

    def enter(self, *, temp=None):
        if self.script_enter():
            self.done = True

    def recur(self, tyme):
        act = self.script_step(tyme)
        if act[0] == "y":
            self.tock = act[1] if act[1] is not None else 0.0
            return False
        return act[1]

    def clean(self):
        self.w.log(self.name, "clean")

    def cease(self):
        self.w.log(self.name, "cease")

    def abort(self, ex):
        self.w.log(self.name, "abort", type(ex).__name__)

    def exit(self):
        self.w.log(self.name, "exit")


class GenLeaf(LeafBase, doing.Doer):
    """kind 1: Doer subclass whose recur is a generator method"""

    def __init__(self, w, name, horizon, fresh):
        doing.Doer.__init__(self)
        self.w, self.name, self.vfname, self.horizon, self.fresh, self.k = w, name, name, horizon, fresh, 0
        self.doer = self
        self._enterdone = False

    def enter(self, *, temp=None):
        self._enterdone = self.script_enter()

    def recur(self, tock=None):
        if self._enterdone:
            return True
        tyme = yield 0.0
        while True:
            act = self.script_step(tyme)
            if act[0] == "y":
                tyme = yield act[1]
            else:
                return act[1]

    clean = PlainLeaf.clean
    cease = PlainLeaf.cease
    abort = PlainLeaf.abort
    exit = PlainLeaf.exit


class FuncLeaf(LeafBase):
    """kinds 2,3,4: generator function following the bareDo template;
    2 = doify'd function, 3 = doize'd function, 4 = doify'd bound method"""

    def __init__(self, w, name, horizon, fresh, kind):
        self.w, self.name, self.horizon, self.fresh, self.k = w, name, horizon, fresh, 0
        leaf = self

        def body(tymth=None, tock=0.0, **opts):
            try:
                if leaf.script_enter():
                    val = leaf.enter_ret
                else:
                    tyme = yield tock
                    while True:
                        act = leaf.script_step(tyme)
                        if act[0] == "y":
                            tyme = yield act[1]
                        else:
                            val = act[1]
                            break
            except GeneratorExit:
                w.log(name, "cease")
                val = None
            except BaseException as ex:  # harness template: user code, not hio's
                w.log(name, "abort", type(ex).__name__)
                raise
            else:
                w.log(name, "clean")
            finally:
                w.log(name, "exit")
            return val

        if kind == 2:
            def genf(tymth=None, tock=0.0, **opts):
                return (yield from body(tymth=tymth, tock=tock, **opts))
            self.doer = doing.doify(genf, name="genf_" + name)
            self.doer.vfname = name
        elif kind == 3:
            @doing.doize()
            def genz(tymth=None, tock=0.0, **opts):
                return (yield from body(tymth=tymth, tock=tock, **opts))
            genz.vfname = name
            self.doer = genz
        else:
            class Holder:
                def meth(self, tymth=None, tock=0.0, **opts):
                    return (yield from body(tymth=tymth, tock=tock, **opts))
            self.holder = Holder()
            self.doer = doing.doify(self.holder.meth, name="meth_" + name)
            self.doer.__func__.vfname = name


def make_leaf(w, name, kind, horizon, fresh=False):
    if kind == 0:
        leaf = PlainLeaf(w, name, horizon, fresh)
    elif kind == 1:
        leaf = GenLeaf(w, name, horizon, fresh)
    else:
        leaf = FuncLeaf(w, name, horizon, fresh, kind)
    w.nodes[name] = leaf
    w.kind[name] = kind
    if w.mode.stale_done:   # as left over by an earlier run of the same doer objects
        try:
            leaf.doer.done = True
        except AttributeError:
            leaf.doer.__func__.done = True
    return leaf


class StaleDoer(doing.Doer):
    """never finishes on its own, logs nothing; counts its recurs on the world"""

    def __init__(self, w):
        super().__init__()
        self.w = w
        self.vfname = "~stale"

    def recur(self, tyme):
        self.w.stale_recurs = getattr(self.w, "stale_recurs", 0) + 1
        return False


class LoggedDoDoer(doing.DoDoer):
    def __init__(self, w, name, always, doers):
        super().__init__(doers=doers, always=always, tock=0.0)
        self.w, self.name, self.vfname = w, name, name
        self.doer = self

    def enter(self, doers=None, *, temp=None):
        if doers is None:
            self.w.log(self.name, "enter")
        return super().enter(doers=doers, temp=temp)

    def recur(self, tyme, deeds=None):
        self.w.log(self.name, "recur", tyme)
        return super().recur(tyme, deeds=deeds)

    def clean(self):
        self.w.log(self.name, "clean")

    def cease(self):
        self.w.log(self.name, "cease")

    def abort(self, ex):
        self.w.log(self.name, "abort", type(ex).__name__)

    def exit(self, deeds=None):
        if deeds is None:
            self.w.log(self.name, "exit_begin")
            super().exit()
            self.w.log(self.name, "exit")
        else:
            super().exit(deeds=deeds)


class LoggedDoist(doing.Doist):
    def __init__(self, w, **kwa):
        super().__init__(**kwa)
        self.w = w
        self.vfname = ""

    def tick(self, tock=None):
        r = super().tick(tock=tock)
        self.w.cycle += 1
        if self.w.cycle > MAXCYCLES:
            raise Horizon("more than %d cycles" % MAXCYCLES)
        return r

    def exit(self, deeds=None):
        if deeds is None:
            self.w.log("", "exit_begin")
            super().exit()
            self.w.log("", "exit")
        else:
            super().exit(deeds=deeds)


# ---------------------------------------------------------------------------
# building and running

def shape_has_always(shape):
    for s in shape:
        if s != "L":
            if s[1] or shape_has_always(s[2]):
                return True
    return False


def build(w, shape, kinds=None, parent=""):
    """instantiate shape (tuple of entries) under the scheduler named parent; returns doer objects.
    Names: top level a, b, c; children of a: aa, ab ..."""
    out = []
    for i, s in enumerate(shape):
        name = parent + "abcdefgh"[i]
        w.order.append(name)
        w.parent[name] = parent
        if s == "L":
            kind = kinds(name) if kinds else 0
            leaf = make_leaf(w, name, kind, w.mode.horizon)
            out.append(leaf.doer)
        else:
            _, always, kids = s
            kd = build(w, kids, kinds, parent=name)
            d = LoggedDoDoer(w, name, always, kd)
            w.nodes[name] = d
            w.kind[name] = "D"
            out.append(d)
    return out


SWEEP_TOCKS = [1.0, 0.25, 0.1, 0.03125, 0.3]
SWEEP_STARTS = [0.0, 2.5, 0.2, 0.7, -1.0, -0.5, -1.5]      # negative: a due tyme can land exactly on 0.0, on a cycle or between two
SWEEP_LIMITS = [None, 2.0, 2.5, 0.3, 0.5, 1.0, 3.0, 0.7]   # absolute seconds when "abs" below


def config(w, ch, shape, sweep=False):
    """scheduler configuration: every option is a choice with a default.
    sweep=True: the full product of a larger grid is enumerated (free choices, cost 0)"""
    m = w.mode
    if sweep:
        T = ch.pick(SWEEP_TOCKS, "cfg:tock", cost=0)
        start = ch.pick(SWEEP_STARTS, "cfg:start", cost=0)
        lims = [x for x in SWEEP_LIMITS if x is not None] if shape_has_always(shape) else SWEEP_LIMITS
        lim = ch.pick(lims, "cfg:limit", cost=0)
        mult = ch.pick([True, False], "cfg:limit-in-tocks", cost=0)
        via = ch.pick(["ctor", "call"] + (["call+rerun"] if m.rerun else []) + (["prerun"] if m.prerun else []) + (["call+stale"] if m.stale else []), "cfg:via", cost=0) if (m.callcfg or m.prerun) else "ctor"
        return T, start, (lim * T if (lim is not None and mult) else lim), via
    if m.cfg and w.table is None:
        T = ch.pick([1.0, 0.25, 0.1], "cfg:tock")
        start = ch.pick([0.0, 2.5, -1.5], "cfg:start")     # negative: due tymes pass through exactly 0.0
        lims = list(m.limits)
        if shape_has_always(shape):
            lims = [x for x in lims if x is not None] or [2.0]
        lim = ch.pick(lims, "cfg:limit")
        pre = (["prerun"] if m.prerun else []) + (["call+stale"] if m.stale and m.callcfg else [])
        via = ch.pick(["ctor", "call"] + (["call+rerun"] if m.rerun else []) + pre, "cfg:via") if m.callcfg else (
            ch.pick(["ctor", "hand"] + pre, "cfg:via") if m.handdrive else (ch.pick(["ctor"] + pre, "cfg:via") if pre else "ctor"))
    else:
        T, start, lim = 1.0, 0.0, (2.0 if shape_has_always(shape) else None)
        via = "ctor"
    return T, start, (lim * T if lim is not None and lim != 0.3 else lim), via


def run(job, ch, mode=None, table=None, cfg=None, kinds=None, runner=None):
    """One execution.  Returns the World (trace etc.)."""
    w = World(job, ch, mode=mode, table=table)
    shape = job[1]
    if cfg is None:
        cfg = config(w, ch, shape, sweep=(len(job) > 2 and "sweep" in job[2:]))
    T, start, lim = cfg[:3]
    via = cfg[3] if len(cfg) > 3 else "ctor"
    w.T, w.start, w.limit, w.via = T, start, lim, via
    if kinds is None:
        m = w.mode

        def kinds(name):
            if len(m.kinds) <= 1:
                return m.kinds[0] if m.kinds else 0
            return m.kinds[ch.choose(len(m.kinds), "kind:" + name)]
    w.kindsel = {}

    def ksel(name):
        k = kinds(name)
        w.kindsel[name] = k
        return k
    doers = build(w, shape, ksel)
    first = w.order[0] if w.order else None
    if len(cfg) > 5:
        w.dup = cfg[5]
    else:
        w.dup = bool(w.mode.dupdoer and w.table is None and ch is not None and w.kind.get(first) != "D"
                     and ch.pick([False, True], "cfg:dupdoer"))
    if w.dup:
        doers = doers + [doers[0]]      # listed twice: two deeds
    if w.mode.tocks and w.table is None:
        # per-leaf default yield: one deviation changes what the leaf yields at *every* step
        for n in list(w.order):
            node = w.nodes.get(n)
            if node is not None and w.kind.get(n) != "D":
                node.basetock = ch.pick([0.0, 0.5 * T, 0.1, 2 * T] + ([1.5 * T] if w.mode.xtocks else []), "basetock:" + n)
    if via == "prerun":
        prerun(w, doers, start)
    # the sign of a limit carries no meaning (documented as a magnitude by abs() at every entry point)
    if len(cfg) > 4:
        sgn = cfg[4]       # a differential re-run is given the limit exactly as the first run was
    else:
        sgn = -1.0 if (w.mode.callcfg and lim is not None and w.table is None and ch is not None and ch.pick([False, True], "cfg:neglimit")) else 1.0
    w.sgn = sgn
    if via in ("call", "call+rerun", "call+stale"):     # constructor holds other (stale) values; the run's limit and start tyme are given to do()/ado()
        # "no limit" for this run is said with limit=0 (None would keep the constructor's)
        d = LoggedDoist(w, tock=T, real=False, limit=(3 * T if lim is None else lim + 3 * T), doers=doers, tyme=start + 3 * T + 0.5)
        w.call_kwargs = dict(limit=(0.0 if lim is None else sgn * lim), tyme=start)
        if w.dup:
            w.call_kwargs["doers"] = doers      # the list (with its repeated entry) is given to the run itself
        w.second_run = (via == "call+rerun")   # then once more without arguments: what the first call stored is what counts
        if via == "call+stale":
            # a deed left over in the idle scheduler (somebody extend()ed it before the run): a run that is given its doers
            # starts from those doers only
            d.extend([StaleDoer(w)])
            w.call_kwargs["doers"] = doers
    else:
        d = LoggedDoist(w, tock=T, real=False, limit=(lim if lim is None else sgn * lim), doers=doers, tyme=start)
        w.call_kwargs = {}
        w.second_run = False
    w.doist = d
    w.result = None
    if w.mode.stale_done:
        d.done = True     # as left by an earlier, completed run of the same Doist
    if runner is not None:
        runner(w)
    else:
        try:
            if via == "hand":
                hand_drive(w, d, doers, lim)
            else:
                d.do(**w.call_kwargs)
                if w.second_run:
                    w.log("#", "second-run")
                    d.do()
            w.log("#", "do_return")
            w.end = len(w.trace)  # events after this index happened after do() returned/raised
            w.result = "return"
        except Horizon:
            w.log("#", "horizon")
            w.end = len(w.trace)
            w.result = "horizon"
        except BaseException as ex:
            w.log("#", "do_raise", type(ex).__name__)
            w.end = len(w.trace)
            w.result = "raise:" + type(ex).__name__
            del ex
    w.final_tyme = d.tyme
    w.done = d.done
    w.dones = {n: (node.doer.done if node is not None else None) for n, node in w.nodes.items()}
    w.doers_after = [name_of(x) for x in d.doers]
    return w


def prerun(w, doers, start):
    """the same doer objects are first run to completion by another Doist on another tyme base (unobserved: every leaf
    completes at its first recur; an always-DoDoer is closed by that run's limit); what the observed run sees must not
    depend on it"""
    w.muted = True
    try:
        doing.Doist(tock=0.5, real=False, limit=1.0, doers=list(doers), tyme=start + 64.0).do()
    finally:
        w.muted = False
    for node in w.nodes.values():
        if hasattr(node, "k"):
            node.k = 0


def hand_drive(w, d, doers, lim):
    """what Doist.do does, spelled out by the caller on an explicit deque (the parameterised enter/recur/exit entry points)"""
    from hio.base import tyming
    deeds = d.deeds = deque()     # the scheduler's own deque, passed explicitly (extend() and a failing enter need it to be .deeds)
    try:
        d.enter()
        d.enter(doers=[])      # an empty batch entered by hand enters nobody (and touches nobody who is already in)
        tymer = tyming.Tymer(tymth=d.tymen(), duration=lim) if lim else None
        while True:
            d.recur(deeds=deeds)
            if not deeds:
                d.done = True
                break
            if tymer is not None and tymer.expired:
                break
    finally:
        w.log("", "exit_begin")
        d.exit(deeds=deeds)
        w.log("", "exit")


# ---------------------------------------------------------------------------
# shapes

def shapes(maxdepth=2, maxtop=3, maxkids=2, maxleaves=6, always=False):
    """all forests with <= maxtop top-level entries, DoDoers with 1..maxkids children, nesting
    depth <= maxdepth (1 == flat), 1..maxleaves leaves; ordered by leaf count"""
    flags = (False, True) if always else (False,)
    memo = {}

    def forests(n, depth, width):
        """tuples of <= width entries (>=1) with exactly n leaves in total"""
        key = (n, depth, width)
        if key in memo:
            return memo[key]
        out = []
        if width >= 1:
            for first in range(1, n + 1):
                for e in entries(first, depth):
                    if first == n:
                        out.append((e,))
                    elif width > 1:
                        for rest in forests(n - first, depth, width - 1):
                            out.append((e,) + rest)
        memo[key] = out
        return out

    def entries(n, depth):
        out = ["L"] if n == 1 else []
        if depth >= 2:
            for kids in forests(n, depth - 1, maxkids):
                for a in flags:
                    out.append(("D", a, kids))
        return out
    res = []
    for n in range(1, maxleaves + 1):
        res.extend(forests(n, maxdepth, maxtop))
    return res


def tier_bound(job, tier):
    """deviation bound of a scheduler-group job: 2; in the thorough tier 3 for forests of at most 2 leaves
    (the bound-3 space of a 4-leaf forest is ~10^7 executions per shape, ~10^9 over the shape set)"""
    if tier == "quick":
        return 2
    return 3 if count_leaves(job[1]) <= 2 else 2


THOROUGH_NOTE = ("thorough tier: every forest of nesting depth <= 2 with <= 4 leaves and of depth 3 with <= 3 leaves at deviation "
                 "bound 2, and every forest with <= 2 leaves at bound 3")


def thorough_shapes(always=False, maxtop=3):
    """depth <= 2 up to 4 leaves, depth 3 up to 3 leaves (there are 4004 depth-3 forests with 4 leaves: ~4*10^7 executions)"""
    a = shapes(2, maxtop=maxtop, maxleaves=4, always=always)
    b = [s for s in shapes(3, maxtop=maxtop, maxleaves=3, always=always) if s not in a]
    return a + b


def count_leaves(shape):
    return sum(1 if s == "L" else count_leaves(s[2]) for s in shape)


def depth_of(shape):
    return max([1] + [1 + depth_of(s[2]) for s in shape if s != "L"])


# ---------------------------------------------------------------------------
# helpers over traces

def events_of(w, name, upto=None):
    tr = w.trace if upto is None else w.trace[:upto]
    return [e for e in tr if e[0] == name]


def summary(w):
    """hashable observation of one run"""
    return (tuple((e[0], e[1], e[2]) + tuple(e[4:]) for e in w.trace), w.end, w.result, w.final_tyme, w.done,
            tuple(sorted((k, repr(v)) for k, v in w.dones.items())))


def state_seq(w):
    """abstract scheduler states along the run: (cycle, alive set with phase counts) after every event"""
    alive = {}
    out = []
    for e in w.trace:
        n, ev = e[0], e[1]
        if n in ("#",):
            continue
        if ev == "enter":
            alive[n] = 0
        elif ev == "recur":
            alive[n] = alive.get(n, 0) + 1
        elif ev == "exit":
            alive.pop(n, None)
        out.append((e[3], ev, n, tuple(sorted(alive.items()))))
    return out
