# generated: plain replay of one counterexample, no explorer involved
import json, subprocess, sys
def test_replay():
    r = subprocess.run(['/verif/check', 'C01', '--replay', '/verif/replays/C01-14632e2c51.json'], capture_output=True, text=True)
    assert r.returncode == 0, r.stdout
if __name__ == '__main__':
    test_replay()
