"""C10 - connection-level socket faults never escape servicing (fault enumeration)."""
import errno

from .. import tcpsys
from ..env import fakenet
from ..explore import Outcome, standard, sharded

PID = "C10"
LEVEL = "fault_enumeration"
ASSUMPTIONS = [
    "kernel replaced by FakeNet (conformance-checked against real loopback sockets); faults are injected as the errno the "
    "kernel would report (OSError subclasses chosen as CPython does) at every send / recv / handshake call of the victim connection",
    "peer close / RST / half-close are real FakeNet events with the semantics measured on this kernel",
    "TLS EOF is modelled as ssl.SSLEOFError raised by the (fake) SSL socket",
    "'marked' = cutoff True, or aborted True, or removed from the server tables with its socket closed",
]
ERRS = tcpsys.FAULT_ERRNOS


def BOUND(tier):
    return 1 if tier == "quick" else 3


def RULE(tier):
    return ("real tcp Server/ServerTls with a victim and a sibling connection (sibling does an echo exchange), and real "
            "Client/ClientTls against a scripted peer; every execution with <= %d faults, a fault being one of 9 connection-level "
            "errnos (+ TLS EOF, + handshake aborts) injected at one send/recv/handshake call of the victim, or the victim's peer "
            "closing / resetting / half-closing at one step boundary, or dying and reconnecting from the very same address before the server noticed; on TLS the victim's first handshake call may stay pending (a free choice), so faults and peer events also land on a pending handshake. Oracle: service() never raises; victim ends cut off / aborted "
            "/ removed-and-closed; sibling echo completes. One case = one fault placement; key = (hio call site, error)." % BOUND(tier))


def EXHAUSTIVE(tier):
    return tier == "quick"   # bound 1 == every single fault placement of the default exchange


def jobs(tier):
    js = [("C10", side, tls, wl) for side in ("server", "client") for tls in (False, True) for wl in (False, True)]
    return sharded(js, 8 if tier == "quick" else 32)


PEER_ACTS = ["none", "close", "rst", "shutwr"]


def harness(job, ch):
    _, side, tls, wl = job[:4]
    if side == "server":
        return server_side(tls, ch, wl)
    return client_side(tls, ch, wl)


def server_side(tls, ch, wl=False):
    """victim = raw peer socket driven by the harness (c0) ; sibling = real hio client (c1)"""
    pol = tcpsys.XPolicy(ch, partial=False, faults=ERRS, tlsfaults=tls, wants=False, connect_alts=False, only={"s0"}, pending_once=tls)
    w = tcpsys.TcpWorld(ch, tls=tls, bs=64, policy=pol, nclients=2, wirelog=wl)
    viol = []
    states = []
    acted = []
    try:
        victim, sib = w.clients
        sib.cs.owner = "c1"
        victim.cs.owner = "c0"
        sent_sib = bytearray()
        died = [False]

        def peer_act(k):
            if died[0]:
                return
            acts = PEER_ACTS + ["rst+reconnect", "close+reconnect"]
            a = acts[ch.choose(len(acts), "peer@%d" % k)]
            if a == "none":
                return
            raw = getattr(victim.cs, "raw", victim.cs)
            acted.append((k, a))
            if a == "close":
                raw.close()
                died[0] = True
            elif a == "rst":
                raw.abort()
                died[0] = True
            elif a == "shutwr":
                try:
                    raw.shutdown(fakenet._real.SHUT_WR)
                except OSError:
                    pass
            elif a in ("rst+reconnect", "close+reconnect"):
                # the peer dies and a new connection comes from the very same address (ip, source port) before the server
                # has noticed: the dead entry is still in the server's tables
                name = raw.name
                raw.abort() if a.startswith("rst") else raw.close()
                died[0] = True
                c2 = w.net.socket()
                c2.owner = "raw"
                c2.name = name
                c2.connect_ex(("127.0.0.1", 6101))

        def echo():
            for ca, ix in list(w.server.ixes.items()):
                if ix.rxbs:
                    ix.tx(bytes(ix.rxbs))
                    ix.clearRxbs()
            rem = _victim_remoter(w, victim)
            if rem is not None and rem.ca in w.server.ixes and not rem.cutoff and rem.cs is not None:
                rem.tx(b"push")      # the server keeps streaming to the victim (e.g. an event stream)
        for k in range(6):
            peer_act(k)
            if k in (1, 3):
                if not died[0] and victim.connected:
                    victim.tx(b"vping%d" % k)
                if sib.connected:
                    p = b"sping%d" % k
                    sib.tx(p)
                    sent_sib.extend(p)
            if not died[0]:
                w.service_client(0, "victim-client.service")
            w.service_client(1, "sibling-client.service")
            peer_act(k + 100)     # the peer may also die between its own activity and the server's next service
            w.service_server()
            echo()
            rem = _victim_remoter(w, victim)
            states.append((k, died[0], len(w.server.ixes), len(getattr(w.server, "cxes", {})),
                           None if rem is None else (rem.cutoff, getattr(rem, "aborted", None))))
            if any(e[0] == "server.service" for e in w.escaped):
                break
        faulted = bool(pol.injected) or bool(acted)
        pol.settle = True
        if not any(e[0] == "server.service" for e in w.escaped):
            for k in range(6, 10):
                if k == 6 and sib.connected and not sent_sib:
                    sib.tx(b"spingL")
                    sent_sib.extend(b"spingL")
                w.service_client(1, "sibling-client.service")
                w.service_server()
                echo()
                if any(e[0] == "server.service" for e in w.escaped):
                    break
        ctx = "tls" if tls else "plain"
        for where, site, name in w.escaped:
            if where == "victim-client.service" and not pol.injected:
                # the harness' own victim client object is only a traffic source here
                continue
            viol.append(("escape:%s:%s:%s" % (site, name, ctx), "%s raised %s at %s (faults %s, peer %s)" % (where, name, site, pol.injected, acted)))
        if not w.escaped:
            rem = _victim_remoter(w, victim)
            hard = [x for x in pol.injected] or [a for a in acted if a[1] in ("close", "rst")]
            if hard:
                marked, how = _marked(w, victim, rem)
                if not marked:
                    what = pol.injected[0][:1] + (_ename(pol.injected[0][2]),) if pol.injected else ("peer", acted[0][1])
                    viol.append(("not-marked:server:%s:%s:%s" % (what[0], what[1], ctx),
                                 "victim connection neither cut off, aborted nor removed+closed after %s / %s (%s)" % (pol.injected, acted, how)))
            if bytes(sib.rxbs) != bytes(sent_sib) or not sent_sib:
                viol.append(("sibling-starved:%s" % ctx, "sibling got %r back of %r (faults %s peer %s)" % (bytes(sib.rxbs), bytes(sent_sib), pol.injected, acted)))
        obs = (tuple(states), tuple(w.escaped), tuple(pol.injected), tuple(acted))
    finally:
        w.close()
    return Outcome(obs=obs, violations=viol, states=states,
                   sample=dict(side="server", tls=tls, injected=[(a, b, _ename(c)) for a, b, c in pol.injected], peer=acted, escaped=w.escaped))


def _ename(code):
    if isinstance(code, str):
        return code
    if code == -fakenet.SSL_EOF:
        return "SSLEOF"
    return errno.errorcode.get(-code, str(code))


def _victim_remoter(w, victim):
    for s in w.net.socks:
        if s.owner == "s0":
            for table in (w.server.ixes, getattr(w.server, "cxes", {})):
                for ca, r in table.items():
                    raw = getattr(r.cs, "raw", r.cs) if r.cs is not None else None
                    if raw is s or (raw is None and ca == s.peername):   # not a later connection from the same address
                        return r
    return None


def _marked(w, victim, rem):
    s0 = [s for s in w.net.socks if s.owner == "s0"]
    if rem is None:
        if not s0:
            return True, "never accepted"
        return (all(s.closed for s in s0), "removed; socket closed=%s" % [s.closed for s in s0])
    if rem.cutoff or getattr(rem, "aborted", False):
        return True, "flag"
    return False, "cutoff=%s aborted=%s in tables" % (rem.cutoff, getattr(rem, "aborted", None))


def client_side(tls, ch, wl=False):
    """victim = real hio client; its peer is a raw FakeNet listener driven by the harness"""
    pol = tcpsys.XPolicy(ch, partial=False, faults=ERRS, tlsfaults=tls, wants=False, connect_alts=False, only={"c0"}, pending_once=tls)
    net = fakenet.Net(pol)
    viol, states, acted = [], [], []
    escaped = []
    with fakenet.Installed(net):
        from hio.core.tcp import clienting
        ls = net.socket()
        ls.bind(("127.0.0.1", 6101))
        ls.listen(5)
        ls.owner = "listen"
        kw = dict(host="127.0.0.1", port=6101, bs=64)
        if wl:      # a wire log attached: its bookkeeping (peer address labels) must not turn a fault into an escape
            from hio.core import wiring
            kw["wl"] = wiring.WireLog(samed=False, filed=False, fmt=b"%(data)b", name="victim")
            kw["wl"].reopen()
        client = clienting.ClientTls(context=fakenet.FakeSSLContext(net), **kw) if tls else clienting.Client(**kw)
        client.reopen()
        client.cs.owner = "c0"
        peer = [None]
        got = bytearray()
        died = [False]

        def peer_step(k):
            if peer[0] is None:
                try:
                    s, ca = ls.accept()
                    s.owner = "p0"
                    peer[0] = s
                except OSError:
                    return
            if died[0]:
                return
            a = PEER_ACTS[ch.choose(len(PEER_ACTS), "peer@%d" % k)]
            s = peer[0]
            if a == "close":
                acted.append((k, a))
                s.close()
                died[0] = True
                return
            if a == "rst":
                acted.append((k, a))
                s.abort()
                died[0] = True
                return
            if a == "shutwr":
                acted.append((k, a))
                try:
                    s.shutdown(fakenet._real.SHUT_WR)
                except OSError:
                    pass
            try:
                d = s.recv(64)
                if d and not s.wr_shut:
                    s.send(d)
                    # the peer may die right after answering: its answer is still unread at the client when the close / reset lands
                    b = PEER_ACTS[ch.choose(3, "peer-after-answer@%d" % k)]
                    if b in ("close", "rst"):
                        acted.append((k, b + "-after-answer"))
                        s.close() if b == "close" else s.abort()
                        died[0] = True
            except OSError:
                pass
        for k in range(7):
            if k in (1, 3) and client.cs is not None:
                client.tx(b"ping%d" % k)
            try:
                client.service()
            except BaseException as ex:
                escaped.append(("client.service", tcpsys.site_of(ex), tcpsys.errname(ex)))
            if client.cs is not None and getattr(client.cs, "owner", None) is None:
                try:
                    client.cs.owner = "c0"
                except Exception:
                    pass
            peer_step(k)
            states.append((k, client.connected, client.cutoff, client.cs is None, len(client.rxbs), died[0]))
            if escaped:
                break
        ctx = "tls" if tls else "plain"
        for where, site, name in escaped:
            viol.append(("escape:%s:%s:%s" % (site, name, ctx), "%s raised %s at %s (faults %s, peer %s)" % (where, name, site, pol.injected, acted)))
        if not escaped:
            hard = list(pol.injected) or [a for a in acted if a[1].split("-")[0] in ("close", "rst")]
            def marked():
                c0 = [x for x in net.socks if x.owner == "c0"]
                return client.cutoff or client.cs is None or not client.connected or (c0 and c0[0].closed)
            if hard and not marked():
                # give it the rounds a healthy environment would
                pol.settle = True
                for _ in range(3):
                    try:
                        client.service()
                    except BaseException as ex:
                        escaped.append(("client.service", tcpsys.site_of(ex), tcpsys.errname(ex)))
                        viol.append(("escape:%s:%s:%s" % (escaped[-1][1], escaped[-1][2], ctx), "client.service raised while settling"))
                        break
                if not escaped and not marked():
                    what = pol.injected[0][:1] + (_ename(pol.injected[0][2]),) if pol.injected else ("peer", acted[0][1])
                    viol.append(("not-marked:client:%s:%s:%s" % (what[0], what[1], ctx),
                                 "client neither cut off nor closed after %s / %s" % (pol.injected, acted)))
        obs = (tuple(states), tuple(escaped), tuple(pol.injected), tuple(acted))
    return Outcome(obs=obs, violations=viol, states=states,
                   sample=dict(side="client", tls=tls, injected=[(a, b, _ename(c)) for a, b, c in pol.injected], peer=acted, escaped=escaped))


run_job, replay = standard(harness, BOUND)


def finish(total, tier):
    from ..env import fakenet_conf
    import io, contextlib
    buf = io.StringIO()
    with contextlib.redirect_stdout(buf):
        rc = fakenet_conf.main()
    return dict(fakenet_conformance=buf.getvalue().strip().splitlines()[-1], fakenet_conformance_ok=(rc == 0))
