"""Bounded grammar of HTTP messages + parser drivers shared by C13/C15/C16/C17."""
from types import SimpleNamespace

from . import treeguard

treeguard()
from hio.core.http import httping, clienting, serving  # noqa: E402

CRLF = b"\r\n"
LF = b"\n"


def chunked_body(chunks, ext=b"", trailer=b"", eol=CRLF):
    out = bytearray()
    for i, c in enumerate(chunks):
        out += b"%x" % len(c) + (ext if i == 0 else b"") + CRLF + c + CRLF
    out += b"0" + CRLF
    if trailer:
        out += trailer + eol
    out += eol
    return bytes(out)


BODY5 = b"a\r\nb\n"
CHUNKSETS = [[b"ab"], [b"a", b"bc\r\n"]]


def request_corpus(full=True):
    """list of (label, bytes, intent dict)"""
    out = []
    for eol, en in ((CRLF, "crlf"), (LF, "lf")):
        for method in ("GET", "POST"):
            for ver in ("HTTP/1.1", "HTTP/1.0"):
                if ver == "HTTP/1.0" and method == "POST":
                    continue
                for extra in ([], [("X-A", "1")], [("Accept", "*/*"), ("X-A", "v w")]):
                    framings = [("none", b"", [])]
                    if method == "POST":
                        framings = [("cl0", b"", [("Content-Length", "0")]), ("cl1", b"z", [("Content-Length", "1")]),
                                    ("cl5", BODY5, [("Content-Length", "5")])]
                        for ci, cs in enumerate(CHUNKSETS):
                            for ext in (b"", b";x=y"):
                                for tr in (b"", b"X-T: 1"):
                                    if not full and (ext or tr) and ci:
                                        continue
                                    framings.append(("ch%d%s%s" % (ci, "e" if ext else "", "t" if tr else ""),
                                                     chunked_body(cs, ext, tr, eol), [("Transfer-Encoding", "chunked")]))
                    for fname, body, fh in framings:
                        hdrs = [("Host", "h")] + extra + fh
                        head = ("%s /p?q=1 %s" % (method, ver)).encode() + eol
                        for k, v in hdrs:
                            head += ("%s: %s" % (k, v)).encode() + eol
                        head += eol
                        out.append(("req-%s-%s-%s-%d-%s" % (en, method, ver[-3:], len(extra), fname), head + body,
                                    dict(method=method, headers=hdrs, body=_decoded(fname, body))))
    return out


def _decoded(fname, body):
    if fname.startswith("ch"):
        idx = int(fname[2])
        return b"".join(CHUNKSETS[idx])
    return body


def response_corpus(full=True):
    out = []
    for eol, en in ((CRLF, "crlf"), (LF, "lf")):
        for prelude in (b"", b"HTTP/1.1 100 Continue" + eol + eol):
            for status in ("200 OK", "404 Not Found", "204 No Content"):
                for extra in ([], [("X-A", "1")]):
                    if status == "204 No Content":
                        framings = [("none", b"", [], False)]
                    else:
                        framings = [("cl0", b"", [("Content-Length", "0")], False), ("cl5", BODY5, [("Content-Length", "5")], False),
                                    ("close", b"xyz\r\n", [("Connection", "close")], True)]
                        for ci, cs in enumerate(CHUNKSETS):
                            for ext in (b"", b";x=y"):
                                for tr in (b"", b"X-T: 1"):
                                    if not full and (ext or tr) and ci:
                                        continue
                                    framings.append(("ch%d%s%s" % (ci, "e" if ext else "", "t" if tr else ""),
                                                     chunked_body(cs, ext, tr, eol), [("Transfer-Encoding", "chunked")], False))
                    if prelude and (extra or status != "200 OK"):
                        continue
                    for fname, body, fh, closes in framings:
                        hdrs = [("Server", "s")] + extra + fh
                        head = prelude + ("HTTP/1.1 %s" % status).encode() + eol
                        for k, v in hdrs:
                            head += ("%s: %s" % (k, v)).encode() + eol
                        head += eol
                        out.append(("rsp-%s-%s%s-%d-%s" % (en, status[:3], "-100" if prelude else "", len(extra), fname), head + body,
                                    dict(status=int(status[:3]), headers=hdrs, body=_decoded(fname, body), closes=closes)))
    return out


# ---------------------------------------------------------------------------
# drivers

def snap_requestant(p):
    return ("req", p.method, p.url, p.path, p.query, p.fragment, p.version, _items(p.headers), bytes(p.body),
            _items(p.trails), _parms(p.parms), p.persisted, p.errored, p.error, p.ended, p.chunked, p.length, p.jsoned)


def snap_respondent(p):
    return ("rsp", p.status, p.reason, p.version, _items(p.headers), bytes(p.body), _items(p.trails), _parms(p.parms),
            p.persisted, p.errored, p.error, p.ended, p.chunked, p.length, p.jsoned, p.evented,
            tuple((e.get("id"), e.get("name"), e.get("data")) for e in p.events), p.leid, p.retry, p.redirectant)


def _items(h):
    if h is None:
        return None
    return tuple((str(k), str(v)) for k, v in h.items())


def _parms(d):
    if d is None:
        return None
    return tuple(sorted((bytes(k) if isinstance(k, (bytes, bytearray)) else k,
                         bytes(v) if isinstance(v, (bytes, bytearray)) else v) for k, v in d.items()))


def drive(kind, fragments, close_at_end=False, maxmsgs=4, method="GET", close_first=False, close_after=None, rebuf=False):
    """feed fragments to a fresh Requestant / Respondent; returns (list of message snapshots, leftover bytes, exc)
    rebuf: the parser object is built over another buffer and handed the (still empty) receive buffer afterwards with
    makeParser(msg=...), before any byte arrives"""
    msg = bytearray()
    first = bytearray() if rebuf else msg
    if kind == "req":
        p = serving.Requestant(msg=first, remoter=SimpleNamespace(tymeout=1.0))
        snap = snap_requestant
    else:
        p = clienting.Respondent(msg=first, method=method)
        snap = snap_respondent
    if rebuf:
        p.makeParser(msg=msg)
    results = []
    exc = None
    recorded = [False]

    def pump():
        nonlocal exc
        for _ in range(64):
            if p.parser is None:
                if not recorded[0]:
                    results.append(snap(p))
                    recorded[0] = True
                if not msg or len(results) >= maxmsgs:
                    return True      # waiting for the next message
                if kind == "rsp":
                    p.reinit(method=method)
                p.makeParser()
                recorded[0] = False
            try:
                p.parse()
            except Exception as ex:  # an escape is a result too (C16 judges it)
                exc = (type(ex).__name__, str(ex)[:80])
                return False
            if p.parser is not None:
                return True
        return False
    alive = True
    if close_first:      # the last fragment AND the peer's close are noticed together (earlier fragments were parsed as they came)
        for frag in fragments[:-1]:
            msg.extend(frag)
            if alive:
                alive = pump()
        msg.extend(fragments[-1])
        p.close()
        if alive:
            alive = pump()
        fragments = ()
    for k, frag in enumerate(fragments):
        msg.extend(frag)
        if alive:
            alive = pump()
        if close_after is not None and k == close_after and alive and exc is None:
            # the connection is cut here; what follows arrives on a new connection parsed by the SAME parser object
            # (http.Client reconnects and re-sends its request: Respondent.reinit + makeParser)
            if p.parser is not None:
                p.close()
                alive = pump()
    if close_at_end and alive and exc is None and p.parser is not None:
        p.close()
        alive = pump()
    if exc is None and p.parser is not None and (msg or p.started):
        results.append(("partial",) + snap(p))
    return results, bytes(msg), exc


def partitions(data, maxcuts):
    """all ways to cut data at <= maxcuts positions"""
    n = len(data)
    yield (data,)
    if maxcuts >= 1:
        for i in range(1, n):
            yield (data[:i], data[i:])
    if maxcuts >= 2:
        for i in range(1, n):
            for j in range(i + 1, n):
                yield (data[:i], data[i:j], data[j:])
    if maxcuts >= 3:
        for i in range(1, n):
            for j in range(i + 1, n):
                for k in range(j + 1, n):
                    yield (data[:i], data[i:j], data[j:k], data[k:])


def bytewise(data):
    return tuple(data[i:i + 1] for i in range(len(data)))
