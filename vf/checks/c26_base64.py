"""C26 - Base64 integer and code conversions are exact inverses (E3, full enumeration of small domains)."""
from .. import treeguard
from ..enum import Acc

treeguard()
from hio.help import helping  # noqa: E402

PID = "C26"
LEVEL = "exploration"
ASSUMPTIONS = ["l = 0 (documented 'empty soft part', pinned by hio's own tests) is outside the property's domain",
               "integers beyond the enumerated range are covered only by the listed boundary values"]
B64 = "ABCDEFGHIJKLMNOPQRSTUVWXYZabcdefghijklmnopqrstuvwxyz0123456789-_"
CHUNK = 1


def RULE(tier):
    q = tier == "quick"
    return ("full enumeration: intToB64/b64ToInt for every i < 2^%d x l in 1..6 plus 64^k-1, 64^k, 64^k+1 (k<=48), 2^64, 2^128+-1, 2^264 x l in 1..24, small numbers x l in 25..60, code strings of 5..60 characters (all A with a marked end, all _); "
            "codeB64ToB2/codeB2ToB64 for every Base64 string of length <= %d (quick: plus every length-4 string starting with A, B or _); nabSextets for every sextet count 3..12 with the last needed byte taking all 256 values over 4 fill patterns and 0-2 surplus bytes, and for every byte string of length <= %d x "
            "every admissible l, plus the first two l that do NOT fit (both conversions must refuse). Every case is a distinct input; outcomes are compared with arithmetic written from the statement."
            % (18 if q else 22, 3 if q else 4, 2 if q else 3))


def EXHAUSTIVE(tier):
    return True


def jobs(tier):
    q = tier == "quick"
    nbits = 18 if q else 22
    step = 1 << 14 if q else 1 << 16
    js = [("int", a, min(a + step, 1 << nbits)) for a in range(0, 1 << nbits, step)]
    js.append(("intspecial",))
    maxs = 3 if q else 4
    for first in B64:
        js.append(("code", first, maxs))
    if q:   # length 4 (3 bytes, where sextet count and byte count differ) for leading zero / one / all-ones sextets
        for first in "AB_":
            for second in B64:
                js.append(("code4", first + second))
    maxb = 2 if q else 3
    for b0 in range(0, 256, 16):
        js.append(("nab", b0, b0 + 16, maxb))
    for l in range(3, 13):      # every sextet count mod 4, beyond what exhaustive byte strings reach
        js.append(("nabwide", l))
    return js


def ndigits(i):
    n = 1
    while i >= 64:
        i //= 64
        n += 1
    return n


def check_int(i, l):
    v = []
    s = helping.intToB64(i, l)
    nd = ndigits(i)
    if not isinstance(s, str) or any(c not in B64 for c in s):
        return [("intToB64:not-base64", "intToB64(%d,%d) -> %r" % (i, l, s))]
    if len(s) != max(l, nd):
        v.append(("intToB64:length", "intToB64(%d,%d) -> %r has length %d, expected %d" % (i, l, s, len(s), max(l, nd))))
    if s[:max(0, len(s) - nd)].strip("A"):
        v.append(("intToB64:padding", "intToB64(%d,%d) -> %r is not left padded with A" % (i, l, s)))
    try:
        back = helping.b64ToInt(s)
    except Exception as ex:
        v.append(("b64ToInt:raises:" + type(ex).__name__, "b64ToInt(%r) raised %r" % (s, ex)))
        return v
    if back != i:
        v.append(("int-roundtrip", "b64ToInt(intToB64(%d,%d)=%r) = %d" % (i, l, s, back)))
    sb = helping.intToB64b(i, l)
    if sb != s.encode() or helping.b64ToInt(sb) != i:
        v.append(("int-roundtrip:bytes", "intToB64b(%d,%d) -> %r" % (i, l, sb)))
    return v


def check_code(s):
    v = []
    b = helping.codeB64ToB2(s)
    n = -(-len(s) * 3 // 4)
    if len(b) != n:
        v.append(("codeB64ToB2:length", "codeB64ToB2(%r) has %d bytes, expected %d" % (s, len(b), n)))
    # independent arithmetic: sextets left aligned
    val = 0
    for c in s:
        val = (val << 6) | B64.index(c)
    val <<= (8 * n - 6 * len(s))
    if b != val.to_bytes(n, "big"):
        v.append(("codeB64ToB2:value", "codeB64ToB2(%r) = %r expected %r" % (s, b, val.to_bytes(n, "big"))))
    back = helping.codeB2ToB64(b, len(s))
    if back != s:
        v.append(("code-roundtrip", "codeB2ToB64(codeB64ToB2(%r), %d) = %r" % (s, len(s), back)))
    if helping.codeB64ToB2(s.encode()) != b:
        v.append(("codeB64ToB2:bytes-arg", "bytes argument differs for %r" % s))
    # the conversions are functions of their arguments only: codes with the same leading octets but another length, converted
    # right after, and the first code converted once more, must each come back as themselves
    for other in ([s + "A"] + ([s[:-1]] if len(s) > 1 and s.endswith("A") else []) + [s]):
        if helping.codeB2ToB64(helping.codeB64ToB2(other), len(other)) != other:
            v.append(("code-roundtrip", "after converting %r, codeB2ToB64(codeB64ToB2(%r), %d) = %r" % (
                s, other, len(other), helping.codeB2ToB64(helping.codeB64ToB2(other), len(other)))))
            break
    return v


def check_nab(b, l):
    v = []
    n = -(-l * 3 // 4)
    got = helping.nabSextets(b, l)
    bits = int.from_bytes(b[:n], "big") >> (8 * n - 6 * l) << (8 * n - 6 * l)
    want = bits.to_bytes(n, "big")
    if got != want:
        v.append(("nabSextets:value", "nabSextets(%r,%d) = %r expected %r" % (b, l, got, want)))
    code = helping.codeB2ToB64(b, l)
    if len(code) != l or helping.codeB64ToB2(code) != want:
        v.append(("codeB2ToB64:leading-bits", "codeB2ToB64(%r,%d) = %r does not keep the leading %d bits" % (b, l, code, 6 * l)))
    return v


def check_short(b, l):
    """more sextets asked for than the bytes hold: there are no such leading bits, nothing may be invented"""
    v = []
    for name, fn in (("nabSextets", helping.nabSextets), ("codeB2ToB64", helping.codeB2ToB64)):
        try:
            got = fn(b, l)
        except ValueError:
            continue
        v.append(("%s:short-input-answered" % name, "%s(%r,%d) returned %r though %d sextets need %d bytes" % (name, b, l, got, l, -(-l * 3 // 4))))
    return v


def run_case(job, case):
    kind = case[0]
    try:
        if kind == "short":
            return check_short(bytes(case[1]), case[2])
        if kind == "int":
            return check_int(case[1], case[2])
        if kind == "code":
            return check_code(case[1])
        if kind == "nab":
            return check_nab(bytes(case[1]), case[2])
    except Exception as ex:
        return [("%s:raises:%s" % (kind, type(ex).__name__), "%r raised %r" % (case, ex))]
    raise AssertionError(case)


def run_job(job, tier, seed):
    acc = Acc(job)
    kind = job[0]

    def do(case, sample=False):
        viols = run_case(job, case)
        if viols or sample:
            acc.case(list(case), "ok" if not viols else viols[0][0], viols, nontrivial=True)
        else:
            acc.bulk(1, 1)
    if kind == "int":
        for i in range(job[1], job[2]):
            for l in range(1, 7):
                do(("int", i, l), sample=(i == job[1] + 77 and l == 3))
    elif kind == "intspecial":
        vals = set()
        for k in range(1, 49):
            vals.update((64 ** k - 1, 64 ** k, 64 ** k + 1))
        vals.update((2 ** 64, 2 ** 64 - 1, 2 ** 128 - 1, 2 ** 128 + 1, 2 ** 63, 2 ** 264, 2 ** 264 - 1, 2 ** 300 + 7))
        for i in sorted(vals):
            for l in range(1, 25):
                do(("int", i, l), sample=(l == 1))
        for i in (0, 1, 63, 64, 4095):          # short numbers padded far beyond their digits
            for l in range(25, 61):
                do(("int", i, l))
        for n in range(5, 61):                  # code strings longer than any header field: all-A with a marked end, all-_
            for s in ("A" * (n - 1) + "B", "B" + "A" * (n - 1), "_" * n, "A" * n):
                do(("code", s))
    elif kind == "code":
        first, maxs = job[1], job[2]
        stack = [first]
        while stack:
            s = stack.pop()
            do(("code", s), sample=(len(s) == 2 and s[1] == "z"))
            if len(s) < maxs:
                stack.extend(s + c for c in B64)
    elif kind == "code4":
        for c3 in B64:
            for c4 in B64:
                do(("code", job[1] + c3 + c4), sample=(c3 == "z" and c4 == "9"))
    elif kind == "nab":
        lo, hi, maxb = job[1], job[2], job[3]
        stack = [bytes([x]) for x in range(lo, hi)]
        while stack:
            b = stack.pop()
            l = 1
            while -(-l * 3 // 4) <= len(b):
                if -(-l * 3 // 4) == len(b):   # only l that use all bytes of b (shorter ones were cases of the prefix)
                    do(("nab", list(b), l), sample=(b[-1] == 0xA5))
                l += 1
            for l2 in (l, l + 1):      # the first two sextet counts that do NOT fit into b
                do(("short", list(b), l2))
            if len(b) < maxb:
                stack.extend(b + bytes([x]) for x in range(256))
    elif kind == "nabwide":
        l = job[1]
        n = -(-l * 3 // 4)
        for fill in (0x00, 0xFF, 0xA5, 0x5A):
            for last in range(256):
                for extra in (b"", b"\x00", b"\xff\xff"):      # bytes beyond the l sextets must not matter
                    b = bytes([fill] * (n - 1) + [last]) + extra
                    do(("nab", list(b), l), sample=(last == 0xA5 and not extra))
    acc.r.obs.add(hash(kind))
    return acc.result()


def replay(job, case):
    return run_case(job, tuple(case))
