"""C09 - TCP/TLS byte streams are delivered exactly, in order, under partial I/O."""
from .. import tcpsys
from ..explore import Outcome, standard, sharded

PID = "C09"
LEVEL = "model_checking"
ASSUMPTIONS = [
    "kernel replaced by FakeNet (partial send of 0/1/n-1/n bytes, short reads, EINPROGRESS) whose deterministic behaviour is "
    "compared call by call with real loopback sockets (vf/env/fakenet_conf.py)",
    "TLS is a plaintext pass-through that raises OpenSSL's WANT_READ/WANT_WRITE at any call; OpenSSL's record layer itself is not modelled",
    "no faults are injected here (C10 does that)",
]

SCRIPTS = [
    "C1 v C3 v v",
    "CL v v S3 v v",
    "C3 CL v S1 SL v C0 v v",
    "v S3 v C1 v SL v v",
    "CL CL v v S0 S1 v v",
    "C1 v S1 v C3 v S3 v",
    "v SL SL v v C3 v",
    "C0 v S0 v C1 S1 v",
    # the server is not listening at first: a reconnectable client (tymeout 0.5) re-opens its socket while bytes wait in its buffer
    "X C3 v t v C1 t v t O v v v",
    # one side half-closes its receive direction and goes on transmitting; only that direction is serviced afterwards
    "C3 v v SR S3 h SL h S1 h",
    "v S1 v v CR C3 g CL g C1 g",
    # the application takes what has arrived out of the client's receive buffer (clearRxbs) and goes on receiving
    "v S3 v v K S1 v SL v K v S3 v v",
]


WLFLAGS = [(True, True), (False, True), (True, False)]      # (rxed, txed) of the attached wire logs, rotated over the jobs


def BOUND(tier):
    return 3 if tier == "quick" else 5


def RULE(tier):
    return ("real tcp Client/ClientTls <-> Server/ServerTls over FakeNet, buffer size 4 and 8096, %d tx/service scripts with payloads "
            "of 0, 1, 3 and bs+1 bytes in both directions; every execution with <= %d non-default kernel answers (thorough tier: one less on TLS connections) (send accepts "
            "0/1/n-1 bytes, recv hands out 1 byte, connect EINPROGRESS, TLS want-read/want-write at handshake and - each of the two - at any send and any recv). "
            "Scripts also cover a reconnectable client whose server listens only later (socket re-opened with bytes waiting), either side half-closing its receive direction "
            "and transmitting on, and server-side connection timers that activity refreshes or not. The client uses application-supplied rx/tx buffers; wire logs are attached with (rxed, txed) rotating over (T,T), (F,T), (T,F). After "
            "every service round: bytes received are a prefix of bytes transmitted (both directions) and each wire log equals the "
            "bytes FakeNet accepted/delivered; after settling: equality and empty tx buffers." % (len(SCRIPTS), BOUND(tier)))


def EXHAUSTIVE(tier):
    return False


def jobs(tier):
    js = []
    for tls in (False, True):
        for bs in (4, 8096):
            for i in range(len(SCRIPTS)):
                js.append(("C09", tls, bs, i, WLFLAGS[(i + (1 if tls else 0) + (1 if bs == 4 else 0)) % len(WLFLAGS)]))
    return sharded(js, 2 if tier == "quick" else 8)


def payload(code, bs):
    if code == "0":
        return b""
    if code == "1":
        return b"a"
    if code == "3":
        return b"bcd"
    return bytes((i * 7 + 1) % 251 for i in range(bs + 1))


def harness(job, ch):
    _, tls, bs, si = job[:4]
    refresh = (job[3] + (1 if job[1] else 0)) % 2 == 0      # activity refreshes the server-side connection timer / does not
    rxed, txed = job[4] if len(job) > 4 and isinstance(job[4], (tuple, list)) and len(job[4]) == 2 and job[4][0] != "shard" else (True, True)
    script = SCRIPTS[si].split()
    half = "h" if "SR" in script else "g" if "CR" in script else None
    late = "X" in script
    from hio.base import tyming
    tymist = tyming.Tymist(tyme=0.0, tock=1.0)
    ckw = dict(rxbs=None, txbs=None)
    if late:
        ckw.update(reconnectable=True, tymeout=0.5)
    app_rx, app_tx = bytearray(), bytearray()      # application-supplied (initially empty) buffers, as http.Client passes them
    w = tcpsys.TcpWorld(ch, tls=tls, bs=bs, wirelog=True, wlflags=(rxed, txed), client_kwa=dict(ckw, rxbs=app_rx, txbs=app_tx), tymth=tymist.tymen(),
                        policy=tcpsys.XPolicy(ch, partial=True, faults=(), wants=tls))
    viol = []
    states = []
    try:
        client = w.clients[0]
        ctx, stx = bytearray(), bytearray()
        srx_taken = bytearray()
        crx_taken = bytearray()      # what the application already took out of the client's receive buffer

        def half_round(which):
            try:
                if which == "h":
                    w.server.serviceSendsAllIx()
                    client.serviceReceives()
                else:
                    client.serviceSends()
                    w.server.serviceReceivesAllIx()
            except BaseException as ex:
                w.escaped.append(("half round " + which, tcpsys.site_of(ex), tcpsys.errname(ex)))

        def await_conn(k):
            rem = None
            for _ in range(6):
                rem = w.remoter_of(0)
                if rem is not None and rem.ca in w.server.ixes and client.connected:
                    return rem
                w.round()
                check("connect round %d" % k)
            rem = w.remoter_of(0)
            if rem is None or rem.ca not in w.server.ixes or not client.connected:
                viol.append(("no-connection:%s" % ("tls" if tls else "plain"), "connection not established after 6 rounds"))
                return None
            return rem

        def check(stage):
            rem = w.remoter_of(0)
            if rem is not None and not refresh:
                rem.refreshable = False      # the application may switch activity-refreshing of the connection's timer off
            srx = bytes(rem.rxbs) if rem is not None else b""
            crx = bytes(crx_taken) + bytes(app_rx)
            if not bytes(ctx).startswith(srx):
                viol.append(("prefix:client-to-server:%s" % ("tls" if tls else "plain"),
                             "%s: server received %r, client transmitted %r" % (stage, srx[:40], bytes(ctx)[:40])))
            if not bytes(stx).startswith(crx):
                viol.append(("prefix:server-to-client:%s" % ("tls" if tls else "plain"),
                             "%s: client received %r, server transmitted %r" % (stage, crx[:40], bytes(stx)[:40])))
            # wire logs vs kernel log
            craw = getattr(client.cs, "raw", client.cs) if client.cs is not None else None
            if craw is not None:
                if txed and w.cwls[0].readTx() != bytes(craw.sent):
                    viol.append(("wirelog:client-tx:%s" % ("tls" if tls else "plain"),
                                 "%s: client wire log tx %r, kernel accepted %r" % (stage, w.cwls[0].readTx()[:40], bytes(craw.sent)[:40])))
                if rxed and w.cwls[0].readRx() != bytes(craw.delivered):
                    viol.append(("wirelog:client-rx:%s" % ("tls" if tls else "plain"),
                                 "%s: client wire log rx %r, kernel delivered %r" % (stage, w.cwls[0].readRx()[:40], bytes(craw.delivered)[:40])))
                sraw = craw.peer
                if sraw is not None and rem is not None:
                    if txed and w.swl.readTx() != bytes(sraw.sent):
                        viol.append(("wirelog:server-tx:%s" % ("tls" if tls else "plain"),
                                     "%s: server wire log tx %r, kernel accepted %r" % (stage, w.swl.readTx()[:40], bytes(sraw.sent)[:40])))
                    if rxed and w.swl.readRx() != bytes(sraw.delivered):
                        viol.append(("wirelog:server-rx:%s" % ("tls" if tls else "plain"),
                                     "%s: server wire log rx %r, kernel delivered %r" % (stage, w.swl.readRx()[:40], bytes(sraw.delivered)[:40])))
            states.append((len(srx), len(crx), len(client.txbs), len(rem.txbs) if rem is not None else -1,
                           client.connected, stage[0]))
        for k, step in enumerate(script):
            if step == "v":
                if w.server.opened:
                    w.round()
                else:
                    w.service_client(0)      # nobody services a closed server
                check("round %d" % k)
            elif step in ("h", "g"):
                half_round(step)
                check("half round %d" % k)
            elif step == "K":
                crx_taken.extend(app_rx)
                client.clearRxbs()
            elif step == "t":
                tymist.tick()
            elif step == "X":
                w.server.close()
            elif step == "O":
                assert w.server.reopen()
            elif step in ("SR", "CR"):
                rem = await_conn(k)
                if rem is None:
                    break
                if step == "SR":
                    w.server.shutdownReceiveIx(rem.ca)
                else:
                    client.shutdownReceive()
            elif step[0] == "C" and step[1] in "013L":
                p = payload(step[1], bs)
                if ctx or k % 2:
                    app_tx.extend(p)        # the application fills the transmit buffer it supplied (every transmit after the first)
                else:
                    client.tx(p)
                ctx.extend(p)
            elif step[0] == "S" and step[1] in "013L":
                rem = await_conn(k)
                if rem is None:
                    break
                p = payload(step[1], bs)
                rem.tx(p)
                stx.extend(p)
            if w.escaped or viol:
                break
        if not viol and not w.escaped:
            w.policy.settle = True
            need = 8 + (len(ctx) + len(stx)) // max(1, bs) * 2 + 4
            for r in range(need):
                if half:
                    half_round(half)
                else:
                    w.round()
                check("settle %d" % r)
                if viol:
                    break
            rem = w.remoter_of(0)
            if not viol:
                srx = bytes(rem.rxbs) if rem is not None else b""
                if half != "h" and (srx != bytes(ctx) or client.txbs or app_tx):
                    viol.append(("liveness:client-to-server:%s" % ("tls" if tls else "plain"),
                                 "after %d healthy rounds server has %d of %d bytes, client txbs %d, supplied tx buffer %d" % (
                                     need, len(srx), len(ctx), len(client.txbs), len(app_tx))))
                if half != "g" and (bytes(crx_taken) + bytes(app_rx) != bytes(stx) or (rem is not None and rem.txbs)):
                    viol.append(("liveness:server-to-client:%s" % ("tls" if tls else "plain"),
                                 "after %d healthy rounds client has %d of %d bytes" % (need, len(crx_taken) + len(app_rx), len(stx))))
        for where, site, name in w.escaped:
            viol.append(("raises:%s:%s" % (name, site), "%s raised %s at %s without any fault injected" % (where, name, site)))
        obs = (tuple(states), tuple(w.net.log[-30:]))
    finally:
        w.close()
    return Outcome(obs=obs, violations=viol, states=states,
                   sample=dict(tls=tls, bs=bs, script=SCRIPTS[si], kernel_calls=len(w.net.log), last_calls=[list(map(str, x)) for x in w.net.log[-6:]]))


def job_bound(job, tier):
    """thorough tier: 5 non-default kernel answers on plain connections, 4 on TLS ones (each TLS call has three more alternatives;
    at 5 the TLS half alone ran for an hour)"""
    return BOUND(tier) - (1 if tier != "quick" and job[1] else 0)


run_job, replay = standard(harness, BOUND, job_bound=job_bound)


def finish(total, tier):
    from ..env import fakenet_conf
    import io, contextlib
    buf = io.StringIO()
    with contextlib.redirect_stdout(buf):
        rc = fakenet_conf.main()
    return dict(fakenet_conformance=buf.getvalue().strip().splitlines()[-1], fakenet_conformance_ok=(rc == 0))
