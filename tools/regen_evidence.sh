#!/bin/sh
# run every registered check at quick tier (rewrites /verif/evidence/*.json); prints one line per check
cd /verif || exit 2
rc=0
for c in $(python3 -c "import json; print(' '.join(x['property_id'] for x in json.load(open('MANIFEST.json'))['checks']))"); do
  out=$(./check $c --tier quick 2>&1); e=$?
  echo "$out" | grep -E "VIOLATION|BROKEN" | cut -c1-200
  echo "$out" | tail -1 | cut -c1-200; [ $e -ne 0 ] && { echo "   ^^^ exit $e"; rc=1; }
done
exit $rc
