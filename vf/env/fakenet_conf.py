"""Conformance of FakeNet against the real kernel: deterministic scenarios are executed call by
call on real loopback sockets and on FakeNet; return values / errnos must agree.

    python -m vf.env.fakenet_conf        -> exit 0 and a count, or exit 1 with the differences
"""
import errno
import socket
import struct
import sys
import time

from . import fakenet

SCENARIOS = {
    "fin-then-recv-send-send": [("c", "close"), ("s", "recv", 10), ("s", "send", b"x"), ("s", "send", b"y"), ("s", "recv", 10),
                                ("s", "getpeername"), ("s", "shutdown", socket.SHUT_RDWR), ("s", "send", b"z"), ("s", "close")],
    "fin-then-send-first": [("c", "close"), ("s", "send", b"x"), ("s", "recv", 10), ("s", "recv", 10), ("s", "send", b"y"), ("s", "getpeername")],
    "half-close": [("c", "shutdown", socket.SHUT_WR), ("s", "recv", 10), ("s", "send", b"x"), ("s", "send", b"y"), ("c", "recv", 10),
                   ("s", "getpeername"), ("c", "send", b"q")],
    "rst-recv-first": [("c", "rst"), ("s", "recv", 10), ("s", "recv", 10), ("s", "send", b"x"), ("s", "getpeername"),
                       ("s", "shutdown", socket.SHUT_RDWR), ("s", "close")],
    "rst-send-first": [("c", "rst"), ("s", "send", b"x"), ("s", "send", b"x"), ("s", "recv", 10), ("s", "getpeername")],
    "rst-getpeername-first": [("c", "rst"), ("s", "getpeername"), ("s", "shutdown", socket.SHUT_RDWR), ("s", "recv", 10), ("s", "recv", 10)],
    "close-with-unread": [("s", "send", b"hello"), ("c", "close"), ("s", "recv", 10), ("s", "recv", 10), ("s", "send", b"x")],
    "data-then-fin": [("c", "send", b"abc"), ("c", "close"), ("s", "recv", 2), ("s", "recv", 10), ("s", "recv", 10)],
    "data-then-rst": [("c", "send", b"abc"), ("c", "rst"), ("s", "recv", 2), ("s", "recv", 10), ("s", "recv", 10), ("s", "recv", 10)],
    "data-then-rst-send": [("c", "send", b"abc"), ("c", "rst"), ("s", "send", b"x"), ("s", "recv", 10), ("s", "recv", 10), ("s", "send", b"y")],
    "own-shutdown": [("s", "shutdown", socket.SHUT_RDWR), ("s", "recv", 1), ("s", "send", b"x"), ("s", "shutdown", socket.SHUT_RDWR),
                     ("s", "getpeername"), ("s", "close"), ("s", "recv", 1), ("s", "close"), ("c", "recv", 1), ("c", "recv", 1)],
    "own-shutdown-wr": [("s", "shutdown", socket.SHUT_WR), ("s", "send", b"x"), ("c", "recv", 1), ("c", "send", b"ab"), ("s", "recv", 5), ("s", "recv", 5)],
    "echo": [("c", "send", b"ping"), ("s", "recv", 10), ("s", "send", b"pong"), ("c", "recv", 2), ("c", "recv", 10), ("c", "recv", 10), ("s", "recv", 10)],
    "accept-empty": [("ls", "accept")],
    "both-close": [("c", "close"), ("s", "close"), ("c", "close")],
    "fin-both-ways": [("c", "shutdown", socket.SHUT_WR), ("s", "shutdown", socket.SHUT_WR), ("c", "recv", 1), ("s", "recv", 1), ("c", "send", b"x"), ("s", "send", b"x")],
    "closed-ops": [("s", "close"), ("s", "send", b"x"), ("s", "getpeername"), ("s", "shutdown", socket.SHUT_RDWR), ("s", "getsockname")],
    "peer-fin-then-we-shutdown": [("c", "close"), ("s", "shutdown", socket.SHUT_RDWR), ("s", "recv", 1), ("s", "send", b"x"), ("s", "close")],
}

UNCONNECTED = [("u", "send", b"x"), ("u", "recv", 1), ("u", "getpeername"), ("u", "shutdown", socket.SHUT_RDWR), ("u", "getsockname")]


def norm(f):
    try:
        r = f()
    except OSError as ex:
        return "E:" + errno.errorcode.get(ex.errno, str(ex.errno))
    if isinstance(r, tuple):
        return "ADDR" if r[1] else "ADDR0"
    return r


def apply(socks, step, real):
    who, op = step[0], step[1]
    s = socks[who]
    if op == "send":
        return norm(lambda: s.send(step[2]))
    if op == "recv":
        return norm(lambda: s.recv(step[2]))
    if op == "close":
        return norm(s.close)
    if op == "shutdown":
        return norm(lambda: s.shutdown(step[2]))
    if op == "getpeername":
        return norm(s.getpeername)
    if op == "getsockname":
        return norm(s.getsockname)
    if op == "accept":
        return norm(lambda: s.accept()[1])
    if op == "rst":
        if real:
            s.setsockopt(socket.SOL_SOCKET, socket.SO_LINGER, struct.pack("ii", 1, 0))
            return norm(s.close)
        return norm(s.abort)
    raise AssertionError(step)


def setup(mod, real):
    ls = mod.socket(socket.AF_INET, socket.SOCK_STREAM)
    ls.setsockopt(socket.SOL_SOCKET, socket.SO_REUSEADDR, 1)
    ls.bind(("127.0.0.1", 0))
    ls.listen(5)
    ls.setblocking(0)
    c = mod.socket(socket.AF_INET, socket.SOCK_STREAM)
    c.setblocking(0)
    out = []
    for _ in range(3):
        out.append(errno.errorcode.get(c.connect_ex(ls.getsockname()), 0))
        if real:
            time.sleep(0.01)
    s, ca = ls.accept()
    s.setblocking(0)
    return dict(ls=ls, c=c, s=s), out


class InProgress(fakenet.Policy):
    def connect(self, sock, listening):
        return 1


def run(name, steps, real):
    if real:
        mod = socket
    else:
        mod = fakenet.SocketModule(fakenet.Net(InProgress()))
    if name == "unconnected":
        u = mod.socket(socket.AF_INET, socket.SOCK_STREAM)
        u.setblocking(0)
        socks, pre = dict(u=u), []
    elif name == "refused":
        u = mod.socket(socket.AF_INET, socket.SOCK_STREAM)
        u.setblocking(0)
        pre = []
        for _ in range(3):
            pre.append(errno.errorcode.get(u.connect_ex(("127.0.0.1", 1)), 0))
            if real:
                time.sleep(0.01)
        socks = dict(u=u)
    elif name == "listener-closed-pending":
        ls = mod.socket(socket.AF_INET, socket.SOCK_STREAM)
        ls.bind(("127.0.0.1", 0))
        ls.listen(5)
        c = mod.socket(socket.AF_INET, socket.SOCK_STREAM)
        c.setblocking(0)
        c.connect_ex(ls.getsockname())
        if real:
            time.sleep(0.01)
        c.connect_ex(ls.getsockname())
        ls.close()
        socks, pre = dict(c=c), []
    else:
        socks, pre = setup(mod, real)
    out = list(pre)
    for st in steps:
        if real:
            time.sleep(0.004)
        out.append(apply(socks, st, real))
    if real:
        for s in socks.values():
            try:
                s.close()
            except OSError:
                pass
    return out


def main(verbose=False):
    scen = dict(SCENARIOS)
    scen["unconnected"] = UNCONNECTED
    scen["refused"] = []
    scen["listener-closed-pending"] = [("c", "recv", 1), ("c", "send", b"x"), ("c", "recv", 1)]
    bad = 0
    calls = 0
    for name, steps in scen.items():
        r = run(name, steps, True)
        f = run(name, steps, False)
        calls += len(r)
        if r != f:
            bad += 1
            print("FAKENET MISMATCH %s\n  real: %r\n  fake: %r" % (name, r, f))
        elif verbose:
            print("ok %s %r" % (name, r))
    print("fakenet conformance: %d scenarios, %d kernel calls compared, %d mismatching scenarios" % (len(scen), calls, bad))
    return 1 if bad else 0


if __name__ == "__main__":
    sys.exit(main("-v" in sys.argv))
