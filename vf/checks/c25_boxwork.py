"""C25 - boxwork transitions run exit/enter actions in the documented nested order.

E3/E2 hybrid: product enumeration of (box forest, first box, transition history) against the REAL Boxer.run generator
driven by hand, with a reference of the documented semantics (computed from the forest alone, never from Box.pile).
"""
from functools import lru_cache

from .. import treeguard
from ..enum import Acc

treeguard()
from hio.base.hier.boxing import Boxer, Box  # noqa: E402
from hio.base.hier.bagging import Bag  # noqa: E402

PID = "C25"
LEVEL = "model_checking"
ASSUMPTIONS = [
    "boxes are built by hand (Box(name, over), over.unders.append, boxer.boxes, boxer.first): the boxwork builder verbs (bx/go/do/on) "
    "and the Need/Act machinery are not exercised; acts are plain logging callables, the goact of a box returns the destination Box "
    "(or None) exactly as Boxer.run expects, a preact returns its verdict",
    "at most one goact fires per cycle and it fires for that cycle only; a failing precondition is placed only on a box the reference "
    "says has to be entered (for every other box the statement does not say whether its preconditions are evaluated)",
    "the action trace is the observation: exit/re-exit/re-enter/enter actions (exacts, rexacts, renacts, enacts) are compared with the "
    "reference as a sequence per cycle; preacts, reacts and afacts are only checked for declaration order inside one box",
    "Boxer.run is driven directly (next, send(tyme)); ending is requested the way Boxer.endial reads it: "
    "hold[('', 'boxer', name, 'end')] = Bag(value=True)",
]

CTXS = (("pre", "preacts"), ("ren", "renacts"), ("en", "enacts"), ("re", "reacts"), ("af", "afacts"), ("ex", "exacts"),
        ("rex", "rexacts"))
PHASES = ("ex", "rex", "ren", "en")        # documented order of the four transition phases inside one cycle
CLAUSE = dict(ex="exit", rex="reexit", ren="reenter", en="enter")
NACTS = 2                                   # acts per context per box, so declaration order is observable
MAXDEPTH = 3
NONE = (-1, -1, -1, -1)                     # cycle without transition
FAILVALS = (False, None, 0, "")             # what a precondition that is not met may return (an unset value, an empty string, ...)
INITFAIL = -2                               # (INITFAIL, -1, box, idx): precondition idx of box fails at the very first entry


def NBOXES(tier):
    return 5 if tier == "quick" else 6


MAXCYCLES = 3


def PLAN(tier, n):
    """bounds for forests of n boxes -> (max failing preconditions per history, which precondition may fail (see fail_options),
    max cycles of a history that contains a failing precondition).  Histories without failing precondition: always the full
    product up to MAXCYCLES cycles."""
    if tier == "quick":
        return (1, "all", 3) if n < 5 else (1, "ends", 2)
    return (2, "all", 3) if n < 6 else (1, "ends", 2)


def BOUND(tier):
    return max(PLAN(tier, n)[0] for n in range(1, NBOXES(tier) + 1))


def RULE(tier):
    def words(n):
        maxfail, mode, failcyc = PLAN(tier, n)
        return ("at most %d failing precondition(s) per history, the failing one being %s, such histories having <= %d cycles"
                % (maxfail, "either preact of any one box that has to be entered" if mode == "all" else
                   "the first preact of the top-most or the last preact of the bottom-most box that has to be entered", failcyc))
    nb = NBOXES(tier)
    return ("every ordered box forest with 1..%d boxes and depth <= %d (sibling order matters: the first under is the primary under) "
            "x every box as first box x every history of 0..%d cycles followed by the end flag, where a cycle is 'no goact fires' or "
            "(a box of the ACTIVE pile whose goact fires, any destination box: sibling, cousin, ancestor, descendant, self, other tree) "
            "with all preconditions met (full product) or with one precondition failing (deviation bound: forests of < %d boxes: %s; "
            "forests of %d boxes: %s); plus every single failing precondition at the very first entry. Each history is one execution "
            "of the real Boxer.run generator on freshly built boxes. Per cycle the observed exacts/rexacts/renacts/enacts trace must "
            "equal the reference computed from active pile P and destination pile Q; per box and context the two acts run in "
            "declaration order; a failed precondition leaves the trace empty and the active box unchanged; histories of <= 1 cycle are also run a second time on the SAME Boxer after its end (same expectations); at the end every box of "
            "the active pile exits exactly once bottom-up. Histories are distinct by construction (prefix tree of cycles)."
            % (nb, MAXDEPTH, MAXCYCLES, nb, words(nb - 1), nb, words(nb)))


def EXHAUSTIVE(tier):
    return True


# ----------------------------------------------------------------------------------------------------------------------
# enumeration of forests: parent vector in preorder, par[i] = index of the over box or -1

def forests(n, maxdepth=MAXDEPTH):
    """all ordered forests with exactly n nodes and depth <= maxdepth as parent vectors in preorder"""
    out = []

    def rec(par, depth):
        if len(par) == n:
            out.append(tuple(par))
            return
        # the next preorder node hangs under the last node or under any of its ancestors, or starts a new tree
        cands = []
        a = len(par) - 1
        while a >= 0:
            cands.append(a)
            a = par[a]
        cands.append(-1)
        for p in cands:
            d = 0 if p < 0 else depth[p] + 1
            if d < maxdepth:
                rec(par + [p], depth + [d])
    rec([-1], [0])
    return out


def show(par):
    """b0(b1(b2,b3),b4) b5"""
    def sub(i):
        kids = [k for k in range(len(par)) if par[k] == i]
        return "b%d" % i + ("(" + ",".join(sub(k) for k in kids) + ")" if kids else "")
    return " ".join(sub(i) for i in range(len(par)) if par[i] < 0)


# ----------------------------------------------------------------------------------------------------------------------
# reference of the documented semantics (statement + Boxer/exen docstrings); works on the parent vector only

@lru_cache(maxsize=None)
def ref_pile(par, b):
    """pile of box b: its overs top-down, b, then primary (first declared) unders down to a leaf"""
    pile = [b]
    while par[pile[0]] >= 0:
        pile.insert(0, par[pile[0]])
    while True:
        unders = [k for k in range(len(par)) if par[k] == pile[-1]]
        if not unders:
            return tuple(pile)
        pile.append(unders[0])


@lru_cache(maxsize=None)
def ref_transition(par, active, dest):
    """expected boxes per phase for a transition from the active pile to dest:
    retained = common prefix of the active pile P and the destination pile Q, cut at dest when dest is in P (forced re-entry)"""
    P, Q = list(ref_pile(par, active)), list(ref_pile(par, dest))
    i = 0
    while i < len(P) and i < len(Q) and P[i] == Q[i] and P[i] != dest:
        i += 1
    retained = P[:i]
    return dict(ex=P[i:][::-1],          # boxes left: exited bottom-up
                rex=retained[::-1],      # boxes kept: re-exited bottom-up
                ren=list(retained),      # ... then re-entered top-down
                en=Q[i:])                # boxes arrived at: entered top-down


def ref_first(par, first):
    return dict(ex=[], rex=[], ren=[], en=list(ref_pile(par, first)))


def ref_end(par, active):
    return dict(ex=list(ref_pile(par, active))[::-1], rex=[], ren=[], en=[])


NOTHING = dict(ex=[], rex=[], ren=[], en=[])


@lru_cache(maxsize=None)
def kind_of(par, active, fire, dest):
    """transition kind relative to the active box (statistics and messages only)"""
    P = ref_pile(par, active)
    if dest in P:
        if dest == fire:
            return "self"
        return "forced-ancestor" if P.index(dest) < P.index(fire) else "forced-descendant"
    root = lambda b: ref_pile(par, b)[0]  # noqa: E731
    if root(dest) != P[0]:
        return "other-tree"
    if par[dest] == par[active]:
        return "sibling"
    ups = []
    a = dest
    while a >= 0:
        ups.append(a)
        a = par[a]
    if active in ups:
        return "descendant"
    return "cousin"


# ----------------------------------------------------------------------------------------------------------------------
# history enumeration (prefix tree over the reference state = active box)

def fail_options(enters, mode):
    """which single precondition fails: mode 'all' = either preact of any box that has to be entered; mode 'ends' = the first
    preact of the top-most such box or the last preact of the bottom-most one"""
    if mode == "all":
        return [(fb, fi) for fb in enters for fi in range(NACTS)]
    return [(enters[0], 0), (enters[-1], NACTS - 1)]


def cycle_options(par, active, allow_fail, mode):
    """[(cycle, next active box, failing preconditions used)]"""
    opts = [(NONE, active, 0)]
    for fire in ref_pile(par, active):
        for dest in range(len(par)):
            opts.append(((fire, dest, -1, -1), dest, 0))
            if allow_fail:
                for fb, fi in fail_options(ref_transition(par, active, dest)["en"], mode):
                    opts.append(((fire, dest, fb, fi), active, 1))
    return opts


def histories(par, first, maxcyc, maxfail, mode="all", failcyc=None, shard=None):
    """all histories (lists of cycles) for one forest and first box; the empty history = end right after the first pass"""
    failcyc = maxcyc if failcyc is None else min(failcyc, maxcyc)

    def rec(active, depth, fails):
        yield []
        if depth == (failcyc if fails else maxcyc):
            return
        opts = cycle_options(par, active, fails < maxfail and depth < failcyc, mode)
        if depth == 0 and shard is not None:
            opts = [o for j, o in enumerate(opts) if j % shard[1] == shard[0]]
        for cyc, nxt, df in opts:
            for rest in rec(nxt, depth + 1, fails + df):
                yield [cyc] + rest
    part0 = shard is None or shard[0] == 0
    if part0:
        for fb in ref_pile(par, first):
            for fi in range(NACTS):
                yield [(INITFAIL, -1, fb, fi)]
    for h in rec(first, 0, 0):
        if h or part0:          # the empty history belongs to part 0
            yield h


# ----------------------------------------------------------------------------------------------------------------------
# harness around the real Boxer

class World:
    """the logging callables of one forest (made once, they are stateless: they append to .log and read the plan of the
    current cycle) and a factory for FRESH real Boxer/Box objects per history"""

    def __init__(self, par):
        self.par = par
        self.log = []
        self.fire = -1
        self.dest = None
        self.fail = (-1, -1)
        self.acts = [[(attr, [self.preact(i, k) if ctx == "pre" else self.act(i, ctx, k) for k in range(NACTS)])
                      for ctx, attr in CTXS] for i in range(len(par))]
        self.goacts = [self.goact(i) for i in range(len(par))]
        self.boxer = None
        self.boxes = []

    def fresh(self, first):
        self.log = []
        self.fire, self.dest, self.fail = -1, None, (-1, -1)
        boxer = Boxer(name="bxr")
        boxes = []
        for i, p in enumerate(self.par):
            box = Box(name="b%d" % i, over=boxes[p] if p >= 0 else None, hold=boxer.hold)
            if p >= 0:
                boxes[p].unders.append(box)
            for attr, acts in self.acts[i]:
                getattr(box, attr).extend(acts)
            box.goacts.append(self.goacts[i])
            box.goacts.append(self.goact_second(i))     # a second transition condition of the same box, true whenever the first is
            boxes.append(box)
        boxer.boxes = {b.name: b for b in boxes}
        boxer.first = boxes[first]
        self.boxer, self.boxes = boxer, boxes

    def act(self, i, ctx, k):
        entry = (i, ctx, k)

        def logact():
            self.log.append(entry)
        return logact

    def preact(self, i, k):
        entry = (i, "pre", k)

        def logpre():
            self.log.append(entry)
            if self.fail == (i, k):
                return FAILVALS[(2 * i + k) % len(FAILVALS)]      # "not met" in one of its falsy spellings
            return True
        return logpre

    def goact(self, i):
        def go():
            return self.dest if self.fire == i else None
        return go

    def goact_second(self, i):
        """declared after the first one and pointing somewhere else (the first box of the forest): when both hold in one pass,
        the one declared first decides and nothing else happens"""
        def go2():
            # (not in a cycle with a failing precondition: after a refused transition hio goes on to the next condition,
            #  which is its documented way of falling through)
            return self.boxes[0] if (self.fire == i and self.boxes and self.dest is not self.boxes[0] and self.fail == (-1, -1)) else None
        return go2

    def active(self):
        b = self.boxer.box
        for i, x in enumerate(self.boxes):
            if x is b:
                return i
        return None


def site_of(ex):
    tb, site = ex.__traceback__, "?"
    while tb is not None:
        fn = tb.tb_frame.f_code.co_filename
        if "/hio/" in fn and "/verif/" not in fn:
            site = "%s:%s" % (fn.split("/hio/", 1)[1][:-3].replace("/", "."),
                              getattr(tb.tb_frame.f_code, "co_qualname", tb.tb_frame.f_code.co_name))
        tb = tb.tb_next
    return site


RANK = {c: i for i, c in enumerate(PHASES)}


def digest(log, fail):
    """one pass over the trace of a cycle -> (box level sequence per context, contexts whose acts did not run in declaration
    order, True if the four transition phases interleave).  Up to NACTS consecutive entries of one box and context form one
    group = one visit of that box in that context; inside a group the acts must appear as #0, #1."""
    got = dict(ex=[], rex=[], ren=[], en=[], re=[], af=[], pre=[])
    bad = []
    mixed = False
    top = -1
    lb, lc, n = None, None, NACTS
    for b, c, k in log:
        if b == lb and c == lc and n < NACTS:
            if k != n:
                bad.append(c)
            n += 1
            continue
        # a new group starts: the previous one must be complete (a failing preact legitimately ends its group)
        if n != NACTS and not (lc == "pre" and (lb, n - 1) == fail):
            bad.append(lc)
        if k != 0:
            bad.append(c)
        got[c].append(b)
        r = RANK.get(c)
        if r is not None:
            if r < top:
                mixed = True
            top = r
        lb, lc, n = b, c, 1
    if n != NACTS and not (lc == "pre" and (lb, n - 1) == fail):
        bad.append(lc)
    return got, bad, mixed


def mismatch(obs, exp):
    if obs == exp[::-1]:
        return "reversed"
    if sorted(obs) == sorted(exp):
        return "permuted"
    if len(obs) != len(set(obs)) and set(obs) == set(exp):
        return "repeated"
    return "wrong-boxes"


def names(seq):
    return "[" + ",".join("b%d" % b for b in seq) + "]"


CLAUSES = dict(
    go=dict(ex="exit", rex="reexit", ren="reenter", en="enter"),
    first=dict(ex="first-entry-exit", rex="first-entry-reexit", ren="first-entry-reenter", en="first-enter"),
    end=dict(ex="end-exit", rex="end-reexit", ren="end-reenter", en="end-enter"),
    none=dict(ex="idle-exit", rex="idle-reexit", ren="idle-reenter", en="idle-enter"),
)


class Lazy:
    """violation text that is only formatted when somebody wants to read it (most cases repeat a key already recorded)"""
    __slots__ = ("fn",)

    def __init__(self, fn):
        self.fn = fn

    def __str__(self):
        return self.fn()


def compare(log, exp, site, stage, where, fail=(-1, -1)):
    """violations of one cycle: observed trace against the expected boxes per phase; `where` is a thunk"""
    got, bad, mixed = digest(log, fail)
    v = []
    log = list(log)
    for ctx in sorted(set(bad)):
        v.append(("declaration-order:%s:%s" % (site, ctx), Lazy(
            lambda ctx=ctx: "%s: %s acts of a box not run in declaration order: %r" % (where(), ctx, [e for e in log if e[1] == ctx]))))
    if stage == "failed":
        ran = [ctx for ctx in PHASES if got[ctx]]
        if ran:
            v.append(("failed-precondition:%s:ran-%s" % (site, "+".join(ran)), Lazy(
                lambda: "%s: precondition #%d of b%d fails, yet %s" % (
                    where(), fail[1], fail[0], "; ".join("%s acts of %s ran" % (c, names(got[c])) for c in ran)))))
        return v
    clause = CLAUSES[stage]
    for ctx in PHASES:
        if got[ctx] != exp[ctx]:
            v.append(("%s:%s:%s" % (clause[ctx], site, mismatch(got[ctx], exp[ctx])), Lazy(
                lambda ctx=ctx: "%s: %s acts ran for %s, documented order is %s" % (where(), ctx, names(got[ctx]), names(exp[ctx])))))
    if mixed:
        v.append(("phase-order:%s" % site, Lazy(
            lambda: "%s: phases interleave: %r (documented: exits, re-exits, re-enters, enters)" % (where(), [c for _, c, _ in log if c in RANK]))))
    return v


AGAIN = -7      # marker cycle: run the history, end, then run the SAME Boxer and boxes through the same history once more


def execute(par, first, hist, world=None):
    """one history on fresh real objects -> (violations, observation, transition kinds)"""
    if hist and hist[0][0] == AGAIN:
        h = list(hist[1:])
        w = world if world is not None else World(par)
        v1, o1, _ = _execute(par, first, h, w, True)
        if v1:
            return [], tuple(o1), []       # already wrong the first time: the plain case reports that
        w.boxer.hold[("", "boxer", w.boxer.name, "end")] = Bag(value=False)
        v2, o2, _ = _execute(par, first, h, w, False)
        return [(k + ":second-run", "%s [second run of the same Boxer after end]" % m) for k, m in v2], tuple(o1) + tuple(o2), []
    return _execute(par, first, hist, world if world is not None else World(par), True)


def _execute(par, first, hist, w, fresh):
    if fresh:
        w.fresh(first)
    else:
        w.log = []
        w.fire, w.dest, w.fail = -1, None, (-1, -1)
    viols, obs, kinds = [], [], []
    gen = w.boxer.run(tock=1.0)
    tyme = 0.0
    model = first           # reference state: the active box

    def desc():
        return "forest %s first b%d" % (show(par), first)

    def step(send, label, *args):
        """advance the generator; returns 'yield' | 'stop' | 'raise'"""
        try:
            gen.send(send)
            return "yield"
        except StopIteration:
            return "stop"
        except Exception as ex:
            viols.append(("raises:%s:%s" % (site_of(ex), type(ex).__name__), "%s, %s: %r" % (desc(), label % args, ex)))
            return "raise"

    # ---- first entry
    if hist and hist[0][0] == INITFAIL:
        _, _, fb, fi = hist[0]
        w.fail = (fb, fi)
        r = step(None, "first entry")
        if r == "yield":
            r = step(tyme, "first pass")
        where = lambda: "%s, first entry" % desc()  # noqa: E731
        viols += compare(w.log, NOTHING, "Boxer.run", "failed", where, fail=(fb, fi))
        if r == "yield":
            viols.append(("failed-precondition:Boxer.run:first-entry-keeps-running", "%s: run() did not return" % where()))
            gen.close()
        return viols, (tuple(w.log),), kinds
    r = step(None, "first entry")
    if r == "yield":
        r = step(tyme, "first pass")
    where = lambda: "%s, first pass" % desc()  # noqa: E731
    if r != "yield":
        if r == "stop":
            viols.append(("ended-early:Boxer.run:first-pass", "%s: run() returned although all preconditions are met" % where()))
        return viols, (tuple(w.log),), kinds
    viols += compare(w.log, ref_first(par, first), "Boxer.run", "first", where)
    obs.append(tuple(w.log))
    if w.active() != model:
        viols.append(("active-box:Boxer.run:first-pass", "%s: active box is %r, expected b%d" % (where(), w.boxer.box, model)))
        gen.close()
        return viols, tuple(obs), kinds

    # ---- cycles
    for n, cyc in enumerate(hist):
        fire, dest, fb, fi = cyc
        w.log = []
        tyme += 1.0
        w.fire, w.dest, w.fail = fire, (w.boxes[dest] if dest >= 0 else None), (fb, fi)
        off = False
        if fire < 0:
            stage, exp, nxt = "none", NOTHING, model

            def where(n=n, model=model):
                return "%s, history %r, cycle %d without transition (active b%d)" % (desc(), hist[:n], n + 1, model)
        else:
            kinds.append(kind_of(par, model, fire, dest) + ("+fail" if fb >= 0 else ""))
            off = ref_pile(par, fire) != ref_pile(par, model)

            def where(n=n, model=model, fire=fire, dest=dest, off=off):
                return ("%s, history %r, cycle %d: active pile %s, goact of b%d fires to b%d (%s%s)"
                        % (desc(), hist[:n], n + 1, names(ref_pile(par, model)), fire, dest, kind_of(par, model, fire, dest),
                           "; the active pile is not the firing box's own primary pile" if off else ""))
            if fb >= 0:
                stage, exp, nxt = "failed", NOTHING, model
            else:
                stage, exp, nxt = "go", ref_transition(par, model, dest), dest
        r = step(tyme, "cycle %d %r after %r", n + 1, cyc, hist[:n])
        if r == "raise":
            return viols, tuple(obs), kinds
        if r == "stop":
            viols.append(("ended-early:Boxer.run:cycle", "%s: run() returned without the end flag" % where()))
            return viols, tuple(obs), kinds
        viols += compare(w.log, exp, "Boxer.run", stage, where, fail=(fb, fi))
        obs.append(tuple(w.log))
        if w.active() != nxt:
            viols.append(("active-box:Boxer.run:after-%s" % stage, "%s: active box is %r, expected b%d" % (where(), w.boxer.box, nxt)))
            gen.close()
            return viols, tuple(obs), kinds   # later cycles were enumerated for another state
        model = nxt

    # ---- end
    w.log = []
    w.fire, w.dest, w.fail = -1, None, (-1, -1)
    w.boxer.hold[("", "boxer", w.boxer.name, "end")] = Bag(value=True)
    where = lambda: "%s, history %r, end with active pile %s" % (desc(), hist, names(ref_pile(par, model)))  # noqa: E731
    r = step(tyme + 1.0, "end after %r", hist)
    if r == "raise":
        return viols, tuple(obs), kinds
    viols += compare(w.log, ref_end(par, model), "Boxer.end", "end", where)
    if r == "yield":
        viols.append(("end:Boxer.run:keeps-running", "%s: run() yielded again after the end flag was set" % where()))
        gen.close()
    obs.append(tuple(w.log))
    return viols, tuple(obs), kinds


# ----------------------------------------------------------------------------------------------------------------------

def jobs(tier):
    js = []
    nmax = NBOXES(tier)
    for n in range(1, nmax + 1):
        for par in forests(n):
            for first in range(n):
                if n == nmax and tier != "quick":
                    js += [(par, first, ("part", k, 8)) for k in range(8)]
                elif n == nmax:
                    js += [(par, first, ("part", k, 2)) for k in range(2)]
                else:
                    js.append((par, first, ("part", 0, 1)))
    return js


CHUNK = 4


def size_of(par, hist):
    return len(par) + 2 * len(hist) + sum(1 for c in hist if c[2] >= 0)


def run_job(job, tier, seed):
    par, first, (_, k, nparts) = job
    par = tuple(par)
    acc = Acc(job)
    world = World(par)
    edges, kindcount = set(), {}
    ncase = 0
    maxfail, mode, failcyc = PLAN(tier, len(par))
    for hist in histories(par, first, MAXCYCLES, maxfail, mode, failcyc, shard=(k, nparts)):
        viols, obs, kinds = execute(par, first, hist, world)
        ncase += 1
        for kd in kinds:
            kindcount[kd] = kindcount.get(kd, 0) + 1
        size = size_of(par, hist)
        news = []       # violations whose key is new in this job or whose counterexample is smaller than the recorded one
        for key, msg in viols:
            v = acc.r.violations.get(key)
            if v is None or (size, len(hist)) < (v["ndev"], len(v["choices"])):
                news.append((key, msg))
            else:
                v["count"] += 1
        if news or ncase % 200 == 1:
            acc.case(hist, obs, (), sample=dict(forest=show(par), first="b%d" % first, history=hist, last_cycle_trace=list(obs[-1])[-12:]))
            for key, msg in news:
                acc.r.add_violation(key, str(msg), job, hist, size)
        else:
            acc.bulk(1, 1)      # distinct by construction (prefix tree); its trace is not hashed
        if len(hist) <= 1 and not (hist and hist[0][0] == INITFAIL):
            # the same Boxer is run a second time after its end: what a run leaves in the boxes must not change the next run
            h2 = [(AGAIN, 0, -1, -1)] + list(hist)
            v2, o2, _ = execute(par, first, h2, world)
            ncase += 1
            if v2:
                acc.case(h2, o2, (), sample=dict(forest=show(par), first="b%d" % first, history=h2))
                for key, msg in v2:
                    if key not in acc.r.violations:
                        acc.r.add_violation(key, str(msg), job, h2, size + 1)
                    else:
                        acc.r.violations[key]["count"] += 1
            else:
                acc.bulk(1, 1)
        # reference state graph: (forest, active box) --cycle--> (forest, active box)
        active = first
        for cyc in hist:
            if cyc[0] == INITFAIL:
                break
            nxt = cyc[1] if (cyc[0] >= 0 and cyc[2] < 0) else active
            edges.add((active, cyc, nxt))
            active = nxt
    for a, cyc, b in edges:
        acc.state((par, a))
        acc.state((par, b))
        acc.edge((par, a), cyc, (par, b))
    acc.extra(**{"transitions_kind_" + kd: c for kd, c in kindcount.items()})
    return acc.result()


def replay(job, case):
    par, first = tuple(job[0]), int(job[1])
    hist = [tuple(int(x) for x in c) for c in case]
    return [(key, str(msg)) for key, msg in execute(par, first, hist)[0]]


def finish(total, tier):
    return dict(forests=sum(len(forests(n)) for n in range(1, NBOXES(tier) + 1)),
                max_failing_preconditions_per_history=BOUND(tier))
