#!/bin/sh
# run tree-directed tests of /repo (or $ROOT) in a private network namespace so concurrent runs cannot clash on ports
ROOT=${ROOT:-/repo}
cd $ROOT && unshare -n sh -c "ip link set lo up; HOME=/root/scratch/home\$\$ PYTHONPATH=$ROOT/src timeout ${T:-1500} /venv/bin/python -m pytest -q -p no:cacheprovider $* 2>&1 | tail -${N:-6}"
rm -rf /tmp/hio* /root/hio /root/scratch/home* 2>/dev/null
