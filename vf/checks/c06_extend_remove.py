"""C06 - runtime extend/remove take effect exactly and preserve membership"""
from .. import sched, sched_mon
from ..explore import Outcome, standard

PID = "C06"
LEVEL = "model_checking"
ASSUMPTIONS = [
    "CPython 3.12 generator semantics; virtual time (real=False)",
    "doer forests bounded by shape depth/leaf count; per-leaf horizon 3 recurs; extend-created leaves horizon 2",
    "extend/remove are called from inside recur only (calling extend from enter is outside the quantifier)",
]


def BOUND(tier):
    return 2 if tier == "quick" else 3


def RULE(tier):
    return ("" if tier == "quick" else sched.THOROUGH_NOTE + ". ") + ("stateless exploration of the real Doist/DoDoer/Doer code: every doer forest shape in the tier's shape set x "
            "every execution with <= %d deviations from the default answers (config, leaf kind, per-step yield/return and extend(fresh|present|[x,x]|completed sibling) / remove(self|prev|next|[b,b]|completed|absent) on the owning Doist or DoDoer(always)). Oracle: added doer entered exactly once inside extend(), first recur in the next cycle, once per cycle; present doers untouched; removed doer gets cease,exit inside remove() and no later event; self-removal keeps running; scheduler.doers equals the list model after every call. "
            "distinct_nontrivial = executions with >=1 deviation whose full event trace was not seen before." % BOUND(tier))


def EXHAUSTIVE(tier):
    return False


def jobs(tier):
    if tier == "quick":
        sh = sched.shapes(2, maxtop=3, maxleaves=3, always=True)
    else:
        sh = sched.thorough_shapes(always=True)
    return [("C06", s) for s in sh]


def harness(job, ch):
    w = sched.run(job, ch)
    return Outcome(obs=sched.summary(w), violations=sched_mon.c06(w), states=sched.state_seq(w),
                   sample=dict(shape=repr(job[1]), trace=[list(map(str, e[:3])) for e in w.trace[:30]]))


run_job, replay = standard(harness, BOUND, job_bound=sched.tier_bound)
