"""C19 - client requests are sent one at a time and answered in FIFO order (scripted server, all behaviours)."""
from .. import tcpsys, treeguard
from ..env import fakenet
from ..explore import Outcome, standard, sharded

treeguard()
from hio.base import tyming  # noqa: E402
from hio.core import http  # noqa: E402

PID = "C19"
LEVEL = "model_checking"
ASSUMPTIONS = [
    "kernel replaced by FakeNet; the server is a scripted peer driven by the harness on one or two fake listeners",
    "liveness (exactly one entry per request) is only demanded when the server keeps the connection usable, or closes it and the "
    "client is reconnectable; safety (one at a time, at most one entry per request, order, tags, refusal) always",
    "the originating request is identified by a caller supplied 'reply' tag found in the entry's request or in the first element of its redirect history",
]
BEHAVIOURS = ["now", "delay", "fragments", "redirect-path", "redirect-host", "close-after", "redirect-nolocation", "status-204", "redirect-http",
              "continue-first", "redirect-noport", "redirect-up-down", "chunked-cap", "fragments-head", "redirect-encoded-query"]
ENCQ = "next=%2Fa%3Fb%3D1%26c%3D2&t=x%2By"                      # a Location query whose values hold encoded ? = & +
ENCQ_WANT = [("next", "/a?b=1&c=2"), ("t", "x+y")]
STYLES = ["qargs+body", "dict", "query-in-path", "bare", "head"]       # how the caller queues a request
CODES = [301, 302, 303, 307]


def BOUND(tier):
    return None if tier == "quick" else None


def RULE(tier):
    return ("real http.Client (plain, and TLS flavour with a fake TLS context) with 1-%d queued requests (distinct path and reply "
            "tag; each queued in one of 5 ways: request() with qargs and body, a raw request dict, the query inside the path, no query, a HEAD request), reconnectable or not, against a scripted server whose behaviour per request is enumerated completely: answer at once / "
            "after 2 idle rounds / in two fragments / redirect (301|302|303|307) to another path / to a second listener / redirect without a Location / 204 without a length / answer then "
            "close / answer with 'Transfer-Encoding: Chunked' / head in two segments cut inside the header block / a bare 100 Continue first / redirect to a Location whose query values hold encoded ? = & + / redirect to an absolute Location without a port (listeners on 80 and 443) / redirect to https on the second listener, which redirects down to http:// / (TLS) redirect to an http:// location. Oracle: no request bytes reach the server while an earlier response is "
            "unfinished; client.responses holds at most one entry per request in queue order with its tag and redirect history; "
            "https->http is refused without any connection to the plain listener, also on the second hop of a chain; exactly one entry per request when the connection "
            "stays usable.%s" % (2 if tier == "quick" else 3, "" if tier == "quick" else " Queues of 3 requests: every assignment with <= 4 choices off the default; queues of 1-2: the complete tree."))


def EXHAUSTIVE(tier):
    return tier == "quick"


def job_bound(job, tier):
    """queues of 1 and 2 requests: the complete tree; queues of 3 (thorough tier): every assignment with at most 4 choices off
    the default (behaviour, redirect code, queueing style per request) - the complete tree of 3 is 15^3 behaviours x styles x codes"""
    return None if job[2] <= 2 else 4


def jobs(tier):
    n = 2 if tier == "quick" else 3
    js = [("C19", tls, nreq, rec) for tls in (False, True) for nreq in range(1, n + 1) for rec in (False, True)]
    return sharded(js, 4 if tier == "quick" else 16)


class Peer:
    """scripted HTTP server on a fake listener"""

    def __init__(self, net, port, world):
        self.net, self.port, self.w = net, port, world
        self.ls = net.socket()
        self.ls.owner = "raw"
        self.ls.bind(("127.0.0.1", port))
        self.ls.listen(5)
        self.conns = []   # [sock, inbuf, pending(list of (countdown, bytes, close_after))]
        self.accepted = 0

    def step(self):
        w = self.w
        while True:
            try:
                s, _ = self.ls.accept()
            except OSError:
                break
            s.owner = "raw"
            self.accepted += 1
            self.conns.append([s, bytearray(), []])
        for c in self.conns:
            s, buf, pending = c
            if s.closed:
                continue
            try:
                data = s.recv(65536)
            except OSError:
                data = None
            if data:
                if pending:
                    w.viol.append(("request-sent-while-response-pending", "%d request bytes arrived on port %d while response to an "
                                   "earlier request was unfinished" % (len(data), self.port)))
                buf.extend(data)
            # progress pending writes first
            if pending:
                cd, out, close_after = pending[0]
                if cd > 0:
                    pending[0] = (cd - 1, out, close_after)
                else:
                    try:
                        s.send(out)
                    except OSError:
                        pass
                    pending.pop(0)
                    if close_after:
                        s.close()
                        continue
            while b"\r\n\r\n" in buf and not pending and not s.closed:
                head, _, rest = bytes(buf).partition(b"\r\n\r\n")
                clen = 0
                for hl in head.split(b"\r\n")[1:]:
                    if hl.lower().startswith(b"content-length:"):
                        try:
                            clen = int(hl.split(b":", 1)[1])
                        except ValueError:
                            clen = 0
                if len(rest) < clen:
                    break
                del buf[:len(head) + 4 + clen]
                line = head.split(b"\r\n")[0].decode("latin-1")
                parts = line.split(" ")
                target = parts[1] if len(parts) > 1 else "?"
                path = target.split("?")[0]
                w.seen.append((self.port, path))
                w.wire.append((parts[0], target, bytes(rest[:clen])))
                self.respond(c, path, parts[0])

    def respond(self, c, path, method="GET"):
        w = self.w
        s, buf, pending = c
        body = ("echo:" + path).encode()
        ok = b"HTTP/1.1 200 OK\r\nContent-Length: %d\r\n\r\n" % len(body) + (b"" if method == "HEAD" else body)   # HEAD: the length, no body
        beh = "now"
        idx = None
        if path.startswith("/up") and path[3:].isdigit():      # second hop of redirect-up-down: from https down to http
            pending.append((0, ("HTTP/1.1 302 Redirect\r\nLocation: http://127.0.0.1:6101/down%s\r\nContent-Length: 0\r\n\r\n" % path[3:]).encode(), False))
            path = None
        if path is None:
            pass
        elif path.startswith("/r") and path[2:].isdigit():
            idx = int(path[2:])
            if idx not in w.used:
                w.used.add(idx)
                beh = w.behaviour(idx)
        if path is None:
            pass
        elif beh == "now":
            pending.append((0, ok, False))
        elif beh == "delay":
            pending.append((2, ok, False))
        elif beh == "fragments":
            pending.append((0, ok[:len(ok) // 2], False))
            pending.append((0, ok[len(ok) // 2:], False))
        elif beh == "close-after":
            pending.append((0, ok, True))
        elif beh == "chunked-cap":      # the coding name in another case (names of transfer codings are case-insensitive)
            pending.append((0, b"HTTP/1.1 200 OK\r\nTransfer-Encoding: Chunked\r\n\r\n" + b"%x\r\n" % len(body) + body + b"\r\n0\r\n\r\n", False) if method != "HEAD" else (0, ok, False))
        elif beh == "fragments-head":   # the head arrives in two segments cut inside the header block
            ok2 = ok.replace(b"\r\n\r\n", b"\r\nX-Pad: 1\r\n\r\n", 1)      # the length line is whole before the cut, which falls inside the next line
            cut = ok2.index(b"X-Pad") + 3
            pending.append((0, ok2[:cut], False))
            pending.append((0, ok2[cut:], False))
        elif beh == "continue-first":   # a bare interim response before the real one
            pending.append((0, b"HTTP/1.1 100 Continue\r\n\r\n" + ok, False))
        elif beh == "status-204":       # an answer that has no body by definition and declares no length
            pending.append((0, b"HTTP/1.1 204 No Content\r\nX-Why: nothing\r\n\r\n", False))
        else:
            code = w.code(idx)
            if beh == "redirect-nolocation":      # a redirect that cannot be followed
                pending.append((0, ("HTTP/1.1 %d Redirect\r\nContent-Length: 0\r\n\r\n" % code).encode(), False))
            elif beh == "redirect-path":
                loc = "/moved%d" % idx
            elif beh == "redirect-host":
                loc = "http%s://127.0.0.1:6102/moved%d" % ("s" if w.tls else "", idx)
            elif beh == "redirect-encoded-query":
                loc = "/moved%d?%s" % (idx, ENCQ)
            elif beh == "redirect-noport":       # absolute Location without a port: the scheme's default port, not the old one
                loc = "http%s://127.0.0.1/np%d" % ("s" if w.tls else "", idx)
            elif beh == "redirect-up-down":      # first hop to https on the other listener, which then sends the client to plain http
                loc = "https://127.0.0.1:6102/up%d" % idx
            else:
                loc = "http://127.0.0.1:6102/moved%d" % idx
            if beh != "redirect-nolocation":
                pending.append((0, ("HTTP/1.1 %d Redirect\r\nLocation: %s\r\nContent-Length: 0\r\n\r\n" % (code, loc)).encode(), False))
        # write what can be written now
        cd, out, close_after = pending[0]
        if cd == 0:
            try:
                s.send(out)
            except OSError:
                pass
            pending.pop(0)
            if close_after:
                s.close()


class World:
    pass


def harness(job, ch):
    _, tls, nreq, reconnectable = job[:4]
    w = World()
    w.tls, w.viol, w.seen, w.used, w.wire = tls, [], [], set(), []
    behs = {}
    codes = {}
    allowed = [b for b in BEHAVIOURS if (b != "redirect-http" or tls)]

    def behaviour(i):
        if i not in behs:
            behs[i] = allowed[ch.choose(len(allowed), "behaviour%d" % i)]
        return behs[i]

    def code(i):
        if i not in codes:
            codes[i] = CODES[ch.choose(len(CODES), "code%d" % i)]
        return codes[i]
    w.behaviour, w.code = behaviour, code
    net = fakenet.Net()
    tymist = tyming.Tymist(tyme=0.0, tock=0.25)
    escaped = None
    with fakenet.Installed(net):
        p1 = Peer(net, 6101, w)
        p2 = Peer(net, 6102, w)
        p3 = Peer(net, 443 if tls else 80, w)      # the scheme's default port
        kw = dict(hostname="127.0.0.1", port=6101, reconnectable=reconnectable, tymeout=0.5, tymth=tymist.tymen())
        if tls:
            client = http.Client(scheme="https", context=fakenet.FakeSSLContext(net), **kw)
        else:
            client = http.Client(**kw)
        client.reopen()
        # request i: even = POST with a body through Client.request(); odd = a raw request dict without body
        # (the documented alternative), both with their own query argument
        styles = {}
        for i in range(nreq):
            default = "qargs+body" if i % 2 == 0 else "dict"
            order = [default] + [x for x in STYLES if x != default]
            st = styles[i] = order[ch.choose(len(order), "style%d" % i)]
            if st == "qargs+body":
                client.request(method="POST", path="/r%d" % i, qargs={"t": str(i)}, body=b"B%d" % i, reply="tag%d" % i)
            elif st == "dict":
                client.requests.append(dict(method="POST", path="/r%d" % i, qargs={"t": str(i)}, reply="tag%d" % i))
            elif st == "query-in-path":     # the query travels inside the path, no qargs given
                client.request(method="GET", path="/r%d?t=%d" % (i, i), reply="tag%d" % i)
            elif st == "head":              # a HEAD request: answered with a length and no body
                client.request(method="HEAD", path="/r%d" % i, reply="tag%d" % i)
            else:                           # no query at all
                client.request(method="GET", path="/r%d" % i, reply="tag%d" % i)
        wanted = {"qargs+body": ("POST", True, True), "dict": ("POST", True, False), "query-in-path": ("GET", True, False),
                  "bare": ("GET", False, False), "head": ("HEAD", False, False)}
        rounds = 0
        for rounds in range(40):
            tymist.tick()
            try:
                client.service()
            except Exception as ex:
                escaped = (tcpsys.site_of(ex), type(ex).__name__, str(ex)[:60])
                break
            p1.step()
            p2.step()
            p3.step()
            if len(client.responses) >= nreq and not client.waited:
                # a few more rounds to catch duplicates
                for _ in range(3):
                    tymist.tick()
                    try:
                        client.service()
                    except Exception as ex:
                        escaped = (tcpsys.site_of(ex), type(ex).__name__, str(ex)[:60])
                    p1.step()
                    p2.step()
                    p3.step()
                break
        viol = list(w.viol)
        if escaped:
            viol.append(("escape:%s:%s" % escaped[:2], "client.service raised %s at %s: %s (behaviours %s)" % (escaped[1], escaped[0], escaped[2], behs)))
        tags = []
        for r in client.responses:
            req = r.get("request") or {}
            tag = req.get("reply")
            reds = r.get("redirects") or []
            if tag is None and reds:
                tag = (reds[0].get("request") or {}).get("reply")
            tags.append(tag)
        want = ["tag%d" % i for i in range(nreq)]
        if len(set(tags)) != len(tags):
            viol.append(("duplicate-response", "responses carry tags %s (behaviours %s)" % (tags, behs)))
        elif tags != want[:len(tags)]:
            viol.append(("response-order-or-tag:%s" % ("lost-tag" if None in tags else "order"), "responses carry tags %s, queue order %s (behaviours %s)" % (tags, want, behs)))
        # redirect history attached
        for i, r in enumerate(client.responses):
            b = behs.get(i)
            # (after the first hop of an up-down chain the client talks https to the other listener: later requests start from there,
            #  so a later Location with http:// is itself a refused downgrade - judged by the clauses below, not here)
            moved_up = any(behs.get(j) == "redirect-up-down" for j in range(i))
            if b in ("redirect-path", "redirect-host", "redirect-noport", "redirect-encoded-query") and i < len(tags) and tags[i] == want[i] and not moved_up:
                reds = r.get("redirects") or []
                if not reds or reds[0].get("status") != codes.get(i):
                    viol.append(("redirect-history-missing", "request %d was redirected (%s %s) but its entry has redirects=%r" % (i, b, codes.get(i), [x.get("status") for x in reds])))
                elif b == "redirect-noport" and not any(p in (80, 443) and path == "/np%d" % i for p, path in w.seen):
                    viol.append(("redirect-wrong-port", "request %d was sent to a Location without a port; the default port never saw it (requests seen: %s)" % (i, w.seen)))
                elif r.get("status") != 200:      # (bodies are not compared: entries alias the parser's buffer, see the plain-entry clause)
                    viol.append(("redirect-not-followed", "request %d redirect entry status %r body %r" % (i, r.get("status"), bytes(r.get("body") or b"")[:30])))
        # a plainly answered request yields a plain entry whatever happened to earlier requests on this client
        for i, r in enumerate(client.responses):
            if behs.get(i) in ("now", "delay", "fragments", "close-after", "status-204", "continue-first", "chunked-cap", "fragments-head") and i < len(tags) and tags[i] == want[i]:
                # (the body is not compared: entries alias the parser's buffer, which the next response empties - outside C19)
                if r.get("status") != (204 if behs.get(i) == "status-204" else 200) or r.get("errored") or (r.get("redirects") or []):
                    viol.append(("plain-response-entry:%s" % ("errored" if r.get("errored") else "redirects" if r.get("redirects") else "status"),
                                 "request %d was answered 200 directly but its entry is status %r errored %r redirects %r body %r (behaviours %s)" % (
                                     i, r.get("status"), r.get("errored"), [x.get("status") for x in (r.get("redirects") or [])], bytes(r.get("body") or b"")[:20], behs)))
        # https -> http must be refused: error reported, plain listener never contacted for it
        for i, b in behs.items():
            if b == "redirect-up-down":
                if any(path == "/down%d" % i for p, path in w.seen):
                    viol.append(("https-to-http-followed:second-hop", "client followed a redirect from https:// down to http:// (request %d, seen %s)" % (i, w.seen)))
                if i < len(client.responses) and not client.responses[i].get("errored") and tags[i:i + 1] == [want[i]]:
                    viol.append(("https-to-http-not-reported:second-hop", "refused redirect of request %d not reported as an error: %r" % (i, {k: client.responses[i].get(k) for k in ("status", "errored", "error")})))
            if b == "redirect-http":
                if any(p == 6102 and path == "/moved%d" % i for p, path in w.seen):
                    viol.append(("https-to-http-followed", "TLS client followed a redirect to http:// (request %d)" % i))
                if i < len(client.responses) and not client.responses[i].get("errored") and tags[i:i + 1] == [want[i]]:
                    viol.append(("https-to-http-not-reported", "refused redirect of request %d not reported as an error: %r" % (i, {k: client.responses[i].get(k) for k in ("status", "errored", "error")})))
        # what went over the wire: original requests carry exactly their own query and body; a followed redirect
        # goes to exactly the Location (nothing of the original query or body leaks into it unless the code says so)
        for meth, target, body in w.wire:
            path, _, query = target.partition("?")
            if path.startswith("/r") and path[2:].isdigit():
                i = int(path[2:])
                wm, hasq, hasb = wanted[styles[i]]
                wantq, wantb = ("t=%d" % i if hasq else ""), (b"B%d" % i if hasb else b"")
                if query != wantq or body != wantb or meth != wm:
                    viol.append(("request-on-wire:%s" % ("body" if body != wantb else "query" if query != wantq else "method"),
                                 "request %d (queued as %s) went out as %s %s body %r, expected %s %s?%s body %r; styles %s" % (
                                     i, styles[i], meth, target, body, wm, path, wantq, wantb, styles)))
            elif path.startswith("/moved") and path[6:].isdigit() and behs.get(int(path[6:])) == "redirect-encoded-query":
                from urllib.parse import parse_qsl
                if parse_qsl(query, keep_blank_values=True) != ENCQ_WANT:
                    viol.append(("redirected-request-query:encoded", "Location %s?%s was requested as %s" % (path, ENCQ, target)))
            elif path.startswith("/moved"):
                if query:
                    viol.append(("redirected-request-query", "redirect to %s was requested as %s (query not in the Location)" % (path, target)))
        # liveness
        # after a redirect to another host the client runs on a fresh connector without the caller's reconnect
        # settings; the statement promises no progress through a connection the server closed
        closes = any(b == "close-after" for b in behs.values())
        usable = not closes or (reconnectable and not any(b in ("redirect-host", "redirect-noport", "redirect-up-down") for b in behs.values()))
        if usable and not escaped and len(client.responses) != nreq and "redirect-http" not in behs.values() and "redirect-up-down" not in behs.values():
            viol.append(("missing-response:%s" % ("reconnectable" if any(b == "close-after" for b in behs.values()) else "usable"),
                         "%d requests queued, %d responses after %d rounds (behaviours %s, tags %s)" % (nreq, len(client.responses), rounds, behs, tags)))
        obs = (tuple(sorted(behs.items())), tuple(sorted(codes.items())), tuple(sorted(styles.items())), tuple(tags), tuple(w.seen), escaped)
    return Outcome(obs=obs, violations=viol, states=None,
                   sample=dict(tls=tls, requests=nreq, reconnectable=reconnectable, behaviours=behs, codes=codes, tags=tags, server_saw=w.seen))


run_job, replay = standard(harness, BOUND, job_bound=job_bound)
