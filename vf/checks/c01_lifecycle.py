"""C01 - every doer runs a well-formed lifecycle on every exit path (DESIGN 3, scheduler group)."""
from .. import sched, sched_mon
from ..explore import Outcome, standard

PID = "C01"
LEVEL = "model_checking"
ASSUMPTIONS = [
    "CPython 3.12 generator semantics; virtual time (real=False)",
    "doer forests bounded by shape depth/leaf count; per-leaf horizon of 3 recurs; extend-created leaves horizon 2",
    "for generator-function doers (doify/doize/bound method) the lifecycle events are those of the bareDo template in the harness",
]


def BOUND(tier):
    return 2 if tier == "quick" else 3


def RULE(tier):
    return ("" if tier == "quick" else sched.THOROUGH_NOTE + ". ") + ("stateless exploration of the real Doist/DoDoer/Doer code: every doer forest shape (depth<=%s) x every "
            "execution with <= %d deviations from the default answers (config tock/start/limit, leaf kind, per-step "
            "yield/return/raise/KeyboardInterrupt/extend/remove/failing enter). Monitor: per-doer automaton "
            "enter recur* (clean|cease|abort) exit. distinct_nontrivial = executions with >=1 deviation whose full "
            "event trace was not seen before." % ("2" if tier == "quick" else "2 with <= 4 leaves, 3 with <= 3 leaves", BOUND(tier)))


def EXHAUSTIVE(tier):
    return False


def jobs(tier):
    if tier == "quick":
        sh = sched.shapes(2, maxtop=3, maxleaves=4, always=True)
    else:
        sh = sched.thorough_shapes(always=True)
    return [("C01", s) for s in sh]


def harness(job, ch):
    w = sched.run(job, ch)
    return Outcome(obs=sched.summary(w), violations=sched_mon.c01(w), states=sched.state_seq(w),
                   sample=dict(shape=repr(job[1]), trace=[list(map(str, e[:3])) for e in w.trace[:30]]))


run_job, replay = standard(harness, BOUND, job_bound=sched.tier_bound)
