#!/usr/bin/env python3
"""Regenerate /verif/MANIFEST.json from the check modules present in vf/checks and META below."""
import glob
import json
import os
import re

V = os.path.dirname(os.path.dirname(os.path.abspath(__file__)))

META = {
    "C01": dict(cat="model_checking", eng="E1-sched", ref="3 (scheduler group), 1.1",
                tech="stateless deviation-bounded exploration of the real scheduler + per-doer trace automaton",
                text="Every execution of the closed system (real Doist/DoDoer/Doer code + scripted doers) with up to 2 deviations from default answers over all small doer forests is run (thorough: forests of depth <= 3, and 3 deviations on forests of <= 2 leaves); the alphabet includes raise / KeyboardInterrupt / failing and completing enter / extend / remove of self, adjacent and far siblings and extend/remove reaching into a sibling DoDoer, and the same doer objects having been run to completion before by another Doist on another tyme base; a trace automaton checks enter recur* (clean|cease|abort) exit per doer, and the terminal step must say why the doer ended (finished by itself -> clean, raised -> abort). Bounded-exhaustive: a counterexample within the bound cannot be missed.",
                note="Trusted: CPython generator semantics, the harness leaf templates, the trace monitor. Bounds: forests <= 4 leaves (depth <= 2) / <= 3 leaves (depth 3), horizon 3 recurs; bound 3 only on forests of <= 2 leaves."),
    "C02": dict(cat="model_checking", eng="E1-sched", ref="3 (scheduler group)",
                tech="stateless deviation-bounded exploration + exit-window order monitor",
                text="Same closed system, alphabet focused on stops (raise, failing enter, limit, remove of adjacent / far siblings (also named twice), of the scheduler's own doers list and of the parent, extend, extend/remove reaching into a sibling DoDoer from outside its pass, a doer that yields 2T and so is not due at the stop; runs through do() or driven by hand with enter / recur(deeds=) / exit(deeds=)): inside every scheduler's exit window the alive children must exit in reverse enter order, completely, before do() returns/raises.",
                note="Trusted: monitor; refcount-timed finalisation is observed relative to do() returning (deterministic in CPython). Ordering after extend() from a running doer is a recorded KNOWN-FINDING."),
    "C03": dict(cat="model_checking", eng="E1-sched", ref="3 (scheduler group)",
                tech="stateless deviation-bounded exploration + statement-derived reference cycle model in lock step",
                text="All small forests x all yield/return scripts within the deviation bound; the per-doer (cycle, tyme) sequence and within-cycle order must equal a 40-line reference model transcribed from the statement (float-exact).",
                note="Trusted: reference model. Tocks from {0,None,T/2,T,1.5T,2T,2.5T,0.1}; T in {1,0.25,0.1}; start in {0,2.5,-1.5}; doers fresh or run before by another Doist; a sweep job enumerates a 5x7x8x2 configuration grid (start tymes incl. negative ones, so that a due tyme of exactly 0.0 falls on a cycle or between two)."),
    "C04": dict(cat="model_checking", eng="E1-sched differential", ref="3 (scheduler group)",
                tech="stateless exploration of flat runs, each replayed under every regrouping into tock-0 DoDoers (differential)",
                text="Every flat execution within the bound is re-run under all 2/13/69/335 regroupings of its 1..4 leaves with the recorded decisions; traces, done flags, completion cycle must be identical; leaves may also complete inside enter (generator functions: with True, False or no value); start tymes incl. a negative one; doers fresh or run before by another Doist on another tyme base. No reference model needed.",
                note="Runs end by completion or limit as in the property's quantifier."),
    "C05": dict(cat="model_checking", eng="E1-sched", ref="3 (scheduler group)",
                tech="stateless deviation-bounded exploration + statement-derived termination/done oracle",
                text="Limits incl. non-multiples of tock, start tymes, always-DoDoers, limit and start tyme given to the constructor or to do() over stale constructor values ('no limit' said as limit=0; limits of either sign), doers added at runtime, a deed left over before a run that is given its doers, a doer given to an idle always-DoDoer from outside, doers run before by another Doist; return cycle, doist.done, final tyme and every doer.done are checked against rules computed from the statement and the observed completions.",
                note="An idle always-DoDoer's done flag after a forced close is excluded (pinned by hio's own test_dodoer_always), also when it was given a doer from outside after its last recur (runtime extension is C06's subject)."),
    "C06": dict(cat="model_checking", eng="E1-sched", ref="3 (scheduler group)",
                tech="stateless deviation-bounded exploration of extend/remove histories + list model of membership",
                text="extend/remove of self, adjacent and far siblings, the scheduler's own doers list, completed, absent and duplicate doers, new doers that complete inside enter, a completed doer taken out and added again (second life), two siblings removed in the reverse of their insertion order, a self-removed doer that must run to its own return, extend reaching into a sibling always-DoDoer, from inside running doers at every step, owners Doist and DoDoer(always); timing clauses and scheduler.doers vs list model checked after every call.",
                note="extend from inside enter is outside the quantifier. Re-adding a self-removed still-running doer is not in the alphabet."),
    "C08": dict(cat="model_checking", eng="E3 op-sequence enumeration", ref="3 (C08)",
                tech="exhaustive enumeration of all timer operation sequences up to a depth against a start/stop model",
                text="All sequences (depth 5/7) of advance/rewind/start/restart/wind on a real Tymer are compared float-exactly with a model written from the statement, and a boundary sweep places tyme exactly on, one and two ulps around every start and stop for 64 non-dyadic starts x 123 durations x {no restart, restart(), restart(d)}; all sequences (depth 6/8) of clock jumps/reads/starts on a real MonoTimer (retro True/False) are checked for monotone elapsed, sticky expired, remaining consistent with expired whatever the order in which the three are read, elapsed 0 at the clock value a period was started at, plain arithmetic (incl. lossless restart) while the clock has only run forward, and a backward step landing between two readings of one operation.",
                note="Fake clock installed as hio.help.timing.time; dyadic values keep MonoTimer arithmetic exact."),
    "C09": dict(cat="model_checking", eng="E1 over FakeNet", ref="3 (TCP group), 2 (FakeNet)",
                tech="stateless deviation-bounded exploration of kernel answers (partial send/short read/would-block/TLS want) on real tcp Client/Server over an in-memory kernel model",
                text="Real tcp Client/ClientTls (built with application-supplied empty rxbs/txbs buffers, which the harness fills and observes) and Server/ServerTls exchange scripted payloads over FakeNet (TLS may want the opposite direction at any send/recv; wire logs receive-only, transmit-only or both; server-side connection timers that activity refreshes or not; a reconnectable client whose server is not listening at first, so that it re-opens its socket with bytes waiting; either side half-closing its receive direction and transmitting on; the application emptying the client's receive buffer); every execution with up to 3 (quick) / 5 (thorough) non-default kernel answers is run; after every service round received bytes must be a prefix of transmitted bytes in both directions, wire logs must equal the bytes the kernel accepted/delivered, and healthy servicing must deliver everything.",
                note="Trusted: FakeNet (its deterministic behaviour is compared call by call with real loopback sockets by vf/env/fakenet_conf.py, reported in evidence); TLS is a pass-through raising OpenSSL's want-read/want-write."),
    "C10": dict(cat="fault_enumeration", eng="E1 over FakeNet", ref="3 (TCP group)",
                tech="exhaustive single (quick) / up to triple (thorough) fault placement: every connection-level errno, TLS EOF, handshake abort at every send/recv/handshake call, peer close/RST/half-close at every step boundary",
                text="Server side with victim + sibling connection, client side against a scripted peer (which may also die right after its answer, with the answer still unread, or die and reconnect from the very same address), plain and TLS (the watched connection's handshake may first stay pending, so that faults and peer events also land there), with and without a WireLog attached: service() must not raise, the victim must end cut off / aborted / removed-and-closed, the sibling's echo must complete.",
                note="'marked' accepts removal with the socket closed. Generic TLS protocol errors (certificate failure) are outside the property."),
    "C11": dict(cat="model_checking", eng="E2 BFS over FakeNet", ref="3 (TCP group)",
                tech="explicit-state BFS over connect/handshake-pending/handshake-EOF/protocol-error/reset/receive-error/replace/port-taken/reopen/close event histories with socket-table invariant",
                text="BFS to depth 5/7 over server and client event histories (plain and TLS); after Server.close()/reopen() every socket it created or accepted must be closed; a client never leaves an earlier socket open (nor any socket after close() or its ClientDoer's exit).",
                note="Openness is observed on the fake sockets (explicit close() calls), never through garbage collection."),
    "C12": dict(cat="model_checking", eng="E1 full tree over FakeNet + virtual tyme", ref="3 (C12)",
                tech="complete enumeration of all client activity timings per tick (3^9 and 2^13/2^16; request trickling, response draining, body of an HTTP/1.1 close request trickling) against a statement-derived idle rule",
                text="Real http.Server (plain and TLS; servant built by the server itself or handed in with a wire log) wound to a virtual Tymist (also: wound only after the connection was accepted); for every timing of client bytes relative to ticks (request trickling, body of a 'Connection: close' / 'TE, close' request trickling, response draining) and every output timing of a streaming application that yields nothing or one byte per service pass, or produces at every pass while the client reads or not, the connection must be closed exactly at the first service at tyme >= last traffic + tymeout and never while traffic keeps arriving.",
                note="Traffic is stamped with the tyme of the service call that moved the bytes. Persistent connections are outside the property."),
    "C13": dict(cat="model_checking", eng="E3 differential", ref="3 (HTTP parsing group)",
                tech="exhaustive enumeration of all <=2/3-cut partitions and byte-by-byte feeding of a message corpus; fragmented vs one-shot differential on the real parsers",
                text="Every message of a bounded grammar (requests, responses, CL/chunked/close-delimited, CRLF/LF heads, 100-continue, pipelined pairs, messages beyond 64 KiB, header / trailer lines one byte below, at and above the line-size limit cut around their CRLF) is parsed one-shot and under every partition, also by a parser that was handed its (empty) receive buffer after construction; all parser result fields must be identical.",
                note="Equal escaping exceptions count as equal (C16 judges escapes)."),
    "C15": dict(cat="model_checking", eng="E3 + reference parser", ref="3 (C15)",
                tech="exhaustive enumeration of event streams x line-terminator assignments x fragmentations x framing, against a WHATWG reference parser",
                text="Streams of 1-3 events from 20 shapes (incl. values that hold colons, with and without the space after the field's colon), every per-line CRLF/LF/CR assignment (single events) or near-uniform assignment, every <=2/3-cut partition and byte-wise, close-delimited and chunked (also the chunked wire cut at every position, framing included), and resumption on the same Respondent after a cut inside a line; events, last id and retry must equal the reference.",
                note="Reference parser transcribed from the WHATWG algorithm (vf/ref/sse.py); streams end with a complete event; no BOM."),
    "C16": dict(cat="fault_enumeration", eng="E3 mutation enumeration over FakeNet", ref="3 (C16)",
                tech="exhaustive enumeration of short byte strings, alphabet strings, all single mutations of a message corpus, targeted near-valid shapes, a request-target grammar with query shapes, a Content-Type grammar, an event-stream field grammar and two-message sequences on one connection against WSGI server, bare server and client",
                text="service() of http.Server, BareServer and http.Client must never raise for any enumerated input (near-valid messages, request-target, Content-Type and event-stream grammars, JSON bodies with an escaped lone surrogate or nested deeper than the recursion limit, event streams with CR / CRLF line ends cut at every position); a sibling connection must still be answered.",
                note="Key = (system, innermost hio call site, exception type). Name resolution is owned by the harness (only numeric hosts and localhost resolve)."),
    "C17": dict(cat="exploration", eng="E3", ref="3 (C17)",
                tech="exhaustive enumeration of bodies x chunk compositions x extensions x trailers and of all chunk-size strings up to a length",
                text="All bodies <= 4/6 bytes over 4 byte values in every chunk composition decode exactly through both parsers (one-shot, byte-wise, the first chunk's data arriving in two reads, and the tail arriving together with the peer's close), with 4 extension forms and 4 trailer sets (incl. values holding colons); every chunk-size string <= 3/4 chars over 15 characters, alone and followed by a chunk extension, is accepted iff it is plain hex, and anything else must be reported as an error (a parser that silently waits for more chunk data has accepted the size).",
                note="Whitespace-padded hex sizes are don't-care (RFC 7230 BWS)."),
    "C07": dict(cat="model_checking", eng="E1 over a fake clock", ref="3 (C07)",
                tech="stateless deviation-bounded exploration of clock behaviour (consumed time, sleep overshoot, backward steps, stalls) around the real Doist.do() real-time loop",
                text="Doist(real=True) paced by MonoTimer runs on a fake clock; every execution with <= 3/4 deviations (work per cycle up to 5T/2, sleep overshoot, backward steps incl. a sub-millisecond one and a stall, real time passing before the run) is checked: cycle k never starts before k tocks of true time; without clock steps the start times equal a lossless pacing model; with steps the same model with each deadline moved by exactly the real time a step can hide (counted from the previous expected clock reading); tock set at construction or assigned before the run.",
                note="Fake clock installed as module global `time` of hio.base.doing and hio.help.timing; forward jumps excluded as in the statement."),
    "C14": dict(cat="exploration", eng="E3 product enumeration", ref="3 (C14)",
                tech="exhaustive product enumeration of request specifications through the real Requester/Client and Requestant/buildEnviron, compared with the specification via a reference urlencoded reader",
                text="9 methods x 7 paths x query dicts over 10 hostile atoms x header sets (incl. an empty value) x 10 bodies (raw incl. all byte values, a latin-1 str, JSON, form) x explicit Content-Length: method, path, query arguments, headers and body bytes must be recovered; the same for the second request of a reused Requester after each of 3 earlier requests (form fields, JSON, raw body with headers and query), for the same request built a second time by one Requester, and for requests whose query is written inside the path string.",
                note="GET carries no body by design; header values are legal field values; form fields compared as body bytes only."),
    "C18": dict(cat="model_checking", eng="E1 over FakeNet + stdlib parser", ref="3 (C18)",
                tech="stateless deviation-bounded exploration of request sequences x WSGI app behaviours x partial sends; wire bytes judged by an independent HTTP parser",
                text="1-3 requests per connection (HTTP/1.0/1.1, keep-alive / close / 'TE, close' / 'Close', pipelined, sequential, or sequential in two segments each), scripted WSGI apps (status, Content-Length exact/absent/short incl. ending inside a later piece, the app itself announcing chunked transfer, the app raising HTTPError before answering or after its first piece, empty pieces, start_response called twice); the received byte stream must parse into exactly the expected responses in order, each self-delimiting while the connection stays open, closed iff not persistent.",
                note="An unframed response to an HTTP/1.0 keep-alive request can only be delimited by closing (RFC 7230): expected as non-persistent."),
    "C19": dict(cat="model_checking", eng="E1 full tree over FakeNet", ref="3 (C19)",
                tech="complete enumeration of scripted server behaviours per queued request (immediate, delayed, fragmented, redirecting, closing) against the real http.Client",
                text="1-2/3 queued requests (each queued in one of 5 ways: qargs+body, raw dict, query inside the path, no query, HEAD), plain and TLS-flavoured client, reconnectable or not; every assignment of 14-15 server behaviours (thorough: queues of three with at most 4 choices off the default) (incl. a redirect without Location, a 204 without a length, a bare 100 Continue first, an absolute Location without a port, a chain http -> https -> http, 'Transfer-Encoding: Chunked', a head cut inside the header block, a Location query with encoded delimiters) and 4 redirect codes; every request goes out with exactly its own method, query and body; a plainly answered request yields a plain entry whatever happened before; no request bytes while an earlier response is unfinished; at most one response entry per request in order with tag and redirect history; https->http refused without contacting the plain listener, also on the second hop of a chain; exactly one entry per request when the connection stays usable.",
                note="Liveness is not demanded through a connection the server closed unless the client is reconnectable on its original connector."),
    "C20": dict(cat="model_checking", eng="E3 permutation enumeration", ref="3 (memo group)",
                tech="exhaustive enumeration of gram sizes x header encodings x codes through the real Memoer.rend, and of every delivery permutation, duplicate insertion, strict subset and two-memo interleaving into the real receive side",
                text="5 unicode memos x 4 zeroth-gram codes x base64/base2 headers x every gram size from the legal minimum to the first single-gram size, and requested sizes below the minimum (the setter must raise them to a size that works), also for senders switched to the other header encoding after construction; for sizes giving <= 3 (quick) / 4 (thorough) grams: all permutations, all permutations with one duplicate at every position, all permutations of all strict subsets, all order-preserving merges with a second memo from another source and signer, also of every permutation of every incomplete subset of the first memo, and duplicate-carrying sequences followed or preceded by the second memo; the inbox must equal the multiset of complete memos with text, source and signer id.",
                note="Recorded KNOWN-FINDINGs: rend fails for the smallest legal base2 gram sizes; a duplicate of an already delivered memo is delivered again; a signed gram ahead of its zeroth gram is dropped (when every gram arrives again after the zeroth the memo must be delivered). Counter-based memo ids, fixed ed25519 seeds."),
    "C21": dict(cat="fault_enumeration", eng="E1 full answer tree over scripted transport / fake datagram socket", ref="3 (memo group)",
                tech="complete enumeration of the tree of transport answers (accept all / 0 / 1 / len-1 bytes, would-block, unreachable errnos) to the first 4/6 sends, real Memoer, udp and uxd PeerMemoer transmit servicing, per-destination ideal-sender oracle",
                text="7 layouts of 2-3 grams (one with an empty gram) to 1-2 destinations x {Memoer with scripted send, udp.PeerMemoer and uxd.PeerMemoer over a fake datagram socket} x {greedy service(), serviceAllOnce()} (also with one bytearray object queued for several destinations): every answer history of the first 4 (quick) / 6 (thorough) sends, then all-accepting sends to a horizon; every send must offer exactly the unsent rest of the oldest unfinished gram of its destination; at the horizon every gram was accepted in full or dropped by an unreachable answer and the buffers are empty. Plus each of the 10 unreachable errnos at each of the first 3 sends.",
                note="Trusted: the fake datagram socket (sendto answers only). Scheduling between different destinations is not prescribed by the oracle."),
    "C22": dict(cat="fault_enumeration", eng="E3 mutation enumeration", ref="3 (memo group)",
                tech="exhaustive enumeration of all short datagrams, alphabet strings, every single-byte replacement and every truncation of valid signed/unsigned grams, and crafted gram sets with numbers at and beyond the count, against real Memoer/AuthMemoer receive servicing",
                text="Receivers with authic False and True: all byte strings <= 2 bytes, all strings of length 3-4 over a 12-byte alphabet, all 255 replacements of every byte and every truncation of every gram of valid memos (4 zeroth codes x base64/base2 headers, 2 and 3 grams), crafted self-signed sets with count 0..3 and gram numbers up to 2^24-1, a mutated copy of every gram position delivered with all intact grams in all (n+1)! orders, and every delivery sequence up to length 5/6 over the four grams of two memos that two signers send under one memo id, datagram sources as strings or (host, port) duples, transferable signer ids checked against a receiver keep with the right / a rotated / a missing / a foreign key: servicing must not raise; complete gram sets whose bytes are not UTF-8 are dropped; an authic receiver delivers only memos all of whose grams verify for the claimed signer and equal the original.",
                note="A reference gram builder written from the wire format must reproduce rend() byte for byte (asserted every run). Fixed ed25519 seeds; counter-based memo ids."),
    "C23": dict(cat="model_checking", eng="E2 BFS over real LMDB", ref="3 (store group)",
                tech="explicit-state BFS over push/pull/extend/update/remove/clear/reopen/resync histories of the real Durq and Dusq on a real LMDB environment with a list / ordered-set model in lock step",
                text="All histories to depth 5 (quick) / 7 (thorough) over values {A,B} in three dataclass flavours; states = (memory content, durable (ordinal, value) list, stale flag); after every operation the return value, list(q), len, count, the durable copy read straight through lmdb, sdb.get, cnt and stale are compared with the model; reopen must restore exactly the model's content. Queues may already hold values (with duplicates) when they first become durable; a Dusq keeps its own copies of the values it was built from. The initial state is judged too. Events also cover a queue that already holds values attached over a non-empty durable copy (the durable copy wins) value lists refused as a whole (nothing changes anywhere), store and queue handed to the Hold in one mapping, and a temp=True store that is closed plainly and re-opened in place.",
                note="Crash points are orderly close/reopen between operations; torn LMDB pages are LMDB's guarantee. Sandbox under /dev/shm, removed afterwards."),
    "C24": dict(cat="model_checking", eng="E2 BFS over real LMDB", ref="3 (store group)",
                tech="explicit-state BFS over put/pin/add/pop/rem histories of the real Suber, IoSuber and IoSetSuber on a real LMDB environment with a dict / dict-of-lists / dict-of-ordered-sets model; every other key re-read after every operation",
                text="Keys {a, ab, a.b, (a,b), a.0, a.<32 hex zeros>} (prefixes of each other, separator and ordinal-suffix shapes), values {x,y} (a third value z for the ordered sets, so that a removal leaves a hole in the ordinals; pins that repeat a value for the lists; and, over fewer keys, {empty string, x}): Suber over all keys to depth 4/6, IoSuber and IoSetSuber over all keys to depth 3/4 and over each of the 15 key pairs to depth 4/6; states deduplicated on the raw LMDB content; result, get, cnt, getFirst, getLast of the operated key equal the model and the same reads of every other key are unchanged.",
                note="The ordinal-suffix key collision of the insertion-ordered stores is a recorded KNOWN-FINDING (14 keys); after a violation the model follows the store so one defect is not reported as a cascade."),
    "C25": dict(cat="model_checking", eng="E3/E2 product enumeration of forests x transition histories", ref="3 (C25)",
                tech="exhaustive enumeration of every ordered box forest up to a size, every first box and every transition history up to 3 cycles (with bounded failing preconditions) on the real Boxer.run generator, action traces compared with a reference computed from the forest alone",
                text="All ordered forests with 1..5 (quick) / 6 (thorough) boxes and depth <= 3 x every first box x every history of 0..3 cycles (no goact fires, or a box of the active pile fires to any destination: sibling, cousin, ancestor, descendant, self, other tree) with all preconditions met, or with 1 (thorough: up to 2) failing precondition, then the end flag: per cycle the exacts/rexacts/renacts/enacts trace must be exits bottom-up, re-exits bottom-up, re-enters top-down, enters top-down for exactly the reference boxes; two acts per context run in declaration order; a refused transition runs nothing and keeps the active box; ending exits the active pile once, bottom-up; the same Boxer run a second time after its end behaves like a fresh one.",
                note="Boxes are built by hand (Box, unders, goacts as plain callables); the builder verbs and Need/Act machinery are not exercised. Reference never reads Box.pile."),
    "C26": dict(cat="exploration", eng="E3 full enumeration", ref="3 (C26)",
                tech="exhaustive enumeration of small input domains against arithmetic written from the statement",
                text="Every integer below 2^18/2^22 x lengths 1..6 plus power-of-64 boundaries to 64^48 x lengths 1..24, small numbers padded to 60, code strings to 60 characters; every Base64 string up to length 3/4; every byte string up to 2/3 bytes x admissible sextet counts, and every sextet count 3..12 with all 256 values of the last needed byte over 4 fill patterns and 0-2 surplus bytes; after every code its neighbours sharing leading octets are converted in the same process; asked for more sextets than the bytes hold, both conversions must refuse.",
                note="l=0 excluded (documented empty soft part)."),
    "C27": dict(cat="model_checking", eng="E2 BFS", ref="3 (C27)",
                tech="explicit-state BFS of the full reachable state graph of the real Namer with a dict-pair model in lock step",
                text="The reachable graph over names {a,b,ab,'',None} x addrs {x,y,xy,'',None} (substrings of one another) and all 5 operations is closed (34 states); inverse/injective invariant in every state; lookups change nothing; rejected operations (also a TypeError for an address that cannot be a dict key) must not mutate; every pair of constructor entries (conflicting or not) must yield the registry the model yields or be rejected whole.",
                note="Domains of 3 names / 3 addresses; also from constructor-seeded states."),
    "C28": dict(cat="exploration", eng="E3 term enumeration", ref="3 (C28)",
                tech="exhaustive enumeration of field values (terms of bounded size) x shapes x formats, round-trip equality",
                text="13 dataclass shapes (flat, frozen, tyme-stamped, nested 1-2 levels, without fields, inheriting a nested field, underscore field names, the documented _dictify/_datify hook pair) x JSON/CBOR/MGPK x every term of <= 3/4 nodes over 15 atoms; for the nested shapes also every sequence of <= 3/4 objects whose nested field is absent / present / present with None inside, with rejected (malformed) inputs in between, each sequence judged in its own pristine forked interpreter; a nested data object without fields; every serialisation is read twice, the first result edited in place before the second read.",
                note="Common representable domain only (no tuples/bytes/NaN/non-str keys)."),
    "C29": dict(cat="exploration", eng="E3 product enumeration in a sandbox", ref="3 (C29)",
                tech="exhaustive product enumeration of Filer flag combinations x relative names/bases (with dotted segments) x short open/reopen/close histories on the real Filer in a sandbox directory tree, recursive snapshot diff around every step",
                text="temp x clean x filed x extensioned x reuse x clear (2^6) x 9 names x 6 bases (incl. '..') x history shapes {init-close, init-reopen-close, direct remake() with relative / absolute base / absolute name, reopen with the temp flag flipped, openFiler context manager with and without a flip inside, FilerDoer enter/exit, also with the filer closed by somebody else in between and on a filer that is already open, the primary head directory unusable so that the alternate head is taken, relative head directories with the working directory changed before the clearing close, perm=0o600} (thorough: each followed by a second reopen/close round); a foreign sibling file is planted next to every path the Filer opens; Filer's class-level directories are redirected into a sandbox under /dev/shm with sentinel files in every ancestor and sibling directory: everything created or deleted must lie inside the head directory (the instance's mkdtemp directory when temp); every clearing step (close(clear=True), reopen(clear=True), openFiler exit, FilerDoer.exit) deletes only at or below the path the instance had, leaves nothing there, and leaves no mkdtemp directory of the instance.",
                note="Runs as root on tmpfs, so the permission-driven fallback to the alternate head is watched but not exercised. Left-over mkdtemp directories of temp Filers are a recorded KNOWN-FINDING (2 keys). Intermediate directories of persistent Filers may stay (shared)."),
    "C30": dict(cat="model_checking", eng="E1-sched + virtual asyncio loop, differential", ref="3 (C30), 2 (virtual loop)",
                tech="stateless exploration incl. all asyncio ready-queue orders on a hand-stepped event loop; do() vs ado() differential",
                text="Each program is run with do() and with ado() on a virtual BaseEventLoop with 0..2 spinning competitor tasks; the explorer also picks which ready handle runs next; limit and start tyme are given to the constructor or to do()/ado() (limits of either sign, 'no limit' as 0), also followed by a second run without arguments, doers fresh or run before by another Doist, a deed left over in the idle scheduler before a run that is given its doers, a doer listed twice, sys.exit() inside a doer; traces, tymes, done flags must be identical.",
                note="Trusted: the virtual loop (BaseEventLoop subclass) is asyncio's own Task/Handle machinery with time() and the selector removed."),
}

NOT_YET = "check not built yet in this session (planned in DESIGN.md section 3)"


def main():
    props = [json.loads(l) for l in open(os.path.join(V, "properties.jsonl"))]
    have = {}
    for f in sorted(glob.glob(os.path.join(V, "vf", "checks", "c[0-9][0-9]_*.py"))):
        pid = os.path.basename(f)[:3].upper()
        have[pid] = f
    checks = []
    na = []
    for p in props:
        pid = p["id"]
        if pid in have and pid in META:
            m = META[pid]
            checks.append(dict(
                property_id=pid,
                quick_cmd="./check %s --tier quick" % pid,
                thorough_cmd="./check %s --tier thorough" % pid,
                evidence_file="/verif/evidence/%s.json" % pid,
                replay_cmd_template="./check %s --replay {path}" % pid,
                engine=m["eng"],
                level_claimed=dict(category=m["cat"], text=m["text"], design_ref="DESIGN.md section " + m["ref"]),
                level_note=m["note"],
                technique=m["tech"],
            ))
        else:
            na.append(dict(property_id=pid, reason=META.get(pid, {}).get("na", NOT_YET)))
    man = dict(
        version=1,
        setup_cmd="./setup.sh",
        hooks=dict(guard="HIO_VERIF", enable="no source hooks: checks import /repo/src directly and replace module globals (socket, time) from outside",
                   baseline_off_cmd="cd /repo && /venv/bin/python -m pytest -ra -q -p no:cacheprovider --timeout=900 --continue-on-collection-errors",
                   source_commits=[], add_only=True),
        engines=[
            dict(name="E1", path="vf/explore.py", serves_properties=[c["property_id"] for c in checks if c["engine"].startswith("E1")],
                 kind_free_text="stateless replay-based choice explorer with iterative deviation bounding over the real Python code (every execution is replayed from a fresh harness; divergence while replaying a prefix is a hard error)"),
            dict(name="E2", path="vf/enum.py", serves_properties=[c["property_id"] for c in checks if c["engine"].startswith("E2") or "E2" in c["engine"].split()[0]],
                 kind_free_text="explicit-state breadth-first search over event histories of the real objects with canonical state keys and a reference model in lock step"),
            dict(name="E3", path="vf/enum.py", serves_properties=[c["property_id"] for c in checks if c["engine"].startswith("E3")],
                 kind_free_text="exhaustive product / sequence / mutation enumeration of a stated finite input space against the real code and a reference written from the statement"),
        ],
        checks=checks,
        notes="All checks run the working tree (/repo/src first on sys.path, verified at start). Genuine defects found are either "
              "repaired by fix: commits in /repo or listed in /verif/known_findings.txt. See DESIGN.md.",
        not_applicable=na,
    )
    json.dump(man, open(os.path.join(V, "MANIFEST.json"), "w"), indent=1)
    print("checks:", len(checks), "not_applicable:", len(na))


if __name__ == "__main__":
    main()
