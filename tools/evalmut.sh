#!/bin/sh
# tools/evalmut.sh <PID> [extra checks...] : run tools/trymut.sh for every m<k>.diff a seeding agent left in /tmp/mut_<PID>_out
P="$1"; shift
for d in /tmp/mut_${P}_out/m*.diff; do
  k=$(basename $d .diff)
  echo "#### $P $k: $(python3 -c "import json,sys; print(json.load(open('/tmp/mut_${P}_out/$k.json'))['summary'][:200])" 2>/dev/null)"
  /verif/tools/trymut2.sh $d /tmp/mut_${P}_out/${k}_demo.py $P "$@"
done
