"""C07 - real-time pacing never runs early and does not drift (E1 over a fake clock)."""
from .. import treeguard
from ..explore import Outcome, standard, sharded

treeguard()
from hio.base import doing  # noqa: E402
from hio.help import timing  # noqa: E402

PID = "C07"
LEVEL = "model_checking"
ASSUMPTIONS = [
    "wall clock and sleep replaced by a fake clock installed as the module global `time` of hio.base.doing and hio.help.timing",
    "true elapsed time advances only through sleep(d) (by d plus a chosen overshoot) and through the time doers consume; the system "
    "clock is true time plus an offset the explorer may step backwards at any clock read; forward jumps are excluded as in the statement",
    "all durations are multiples of 1/8 s so float arithmetic is exact",
]
CONFIGS = [("ctor", 1.0, None), ("assign", None, 0.5), ("assign", 1.0, 2.0), ("assign", 2.0, 0.5), ("ctor", 0.25, None)]


def BOUND(tier):
    return 3 if tier == "quick" else 4


def RULE(tier):
    return ("real Doist(real=True).do() with one scripted doer for %d cycles; tock set at construction or assigned before do() (5 "
            "configurations); every execution with <= %d deviations among: real time consumed by a recur in {0, T/2, 3T/2, 5T/2}, sleep "
            "overshoot in {0, T/4, T, 5T/2}, backward system-clock step in {0, T/2, 3T, 1/2048 s} at any clock read (incl. a 'stall' equal to the "
            "time just slept), real time passing between construction and do() in {0, T/4, 3T/2}. Oracle: cycle k starts at true elapsed time >= k*T (T = doist.tock when do() is called, also when a doer lowers doist.tock during the run); without clock "
            "steps the start of cycle k equals max(ready_k, t0 + k*T + overshoot) (lossless pacing model); with steps the same with each "
            "deadline moved by exactly the real time the steps so far can hide from a timer that compares consecutive readings." % (4 if tier == "quick" else 5, BOUND(tier)))


def EXHAUSTIVE(tier):
    return False


def jobs(tier):
    n = 4 if tier == "quick" else 5
    return sharded([("C07", i, n) for i in range(len(CONFIGS))], 4 if tier == "quick" else 16)


class FakeClock:
    def __init__(self, ch, T):
        self.ch, self.T = ch, T
        self.true = 1000.0
        self.off = 0.0
        self.jumps = []
        self.sleeps = []
        self.last_slept = 0.0
        self.armed = False
        self.last_read = None        # true time of the previous clock read
        self.pending = None          # true time at which the run loop is expected to read the clock next (end of a cycle's work)
        self.lost = []               # (true time of the step, real time the step hides from a monotonic timer)

    def time(self):
        if self.armed:
            alts = [0.0, self.T / 2, 3 * self.T, 1.0 / 2048]      # the last one: a sub-millisecond step (clock discipline jitter)
            if self.last_slept:
                alts.append(self.last_slept)     # stall: the clock shows no progress over the last sleep
            j = alts[self.ch.choose(len(alts), "clock-step")]
            if j:
                self.off -= j
                self.jumps.append((self.true, j))
                # what a timer that compares consecutive readings cannot know: the real time since its previous reading
                # if the step is larger than that, else the step itself (it is invisible)
                e = self.true - self.last_read if self.last_read is not None else 0.0
                self.lost.append((self.true, min(e, j)))
        self.last_read = self.true
        self.pending = None
        return self.true + self.off

    def sleep(self, d):
        ov = 0.0
        if self.armed:
            ov = [0.0, self.T / 4, self.T, 2.5 * self.T][self.ch.choose(4, "overshoot")]
        self.true += d + ov
        self.last_slept = d + ov
        self.sleeps.append((d, ov))
        self.sleep_ends = getattr(self, "sleep_ends", {})
        self.sleep_ends[self.true] = ov
        if len(self.sleeps) > 200:
            raise RuntimeError("sleep loop does not terminate")

    def consume(self, c):
        # the run loop is expected to consult the clock when a cycle's work is done. If it did not do so after the previous
        # cycle, that reading counts as made (without a step): what a later backward step can hide is the real time since the
        # previous EXPECTED reading, however few readings the implementation actually makes
        if self.pending is not None and self.last_read is not None:
            self.last_read = self.pending
        self.true += c
        self.last_slept = 0.0
        self.pending = self.true


def harness(job, ch):
    how, t0arg, t1 = CONFIGS[job[1]]
    ncycles = job[2]
    T = t1 if t1 is not None else t0arg
    clk = FakeClock(ch, T)
    saved = (doing.time, timing.time)
    doing.time = clk
    timing.time = clk
    starts = []
    consumed = []
    viol = []
    try:
        class Work(doing.Doer):
            def recur(self, tyme):
                starts.append(clk.true)
                c = [0.0, T / 2, 1.5 * T, 2.5 * T][ch.choose(4, "consume")]
                clk.consume(c)
                consumed.append(c)
                if ch.choose(2, "retock"):      # the tock is lowered while the run is going: the pace stays the one of the run's start
                    d.tock = Trun / 2
                return len(starts) > ncycles

        d = doing.Doist(real=True, tock=t0arg, doers=[Work()]) if t0arg is not None else doing.Doist(real=True, doers=[Work()])
        if how == "assign":
            d.tock = t1
        Trun = d.tock
        # real time may pass between building the scheduler and running it (less than a tock, or more)
        clk.true += [0.0, T / 4, 1.5 * T][ch.choose(3, "delay-before-run")]
        clk.armed = True
        clk.last_read = None      # the run (re)starts its timer at its first reading: nothing before it can be hidden
        t_call = clk.true
        err = None
        try:
            d.do()
        except Exception as ex:
            err = type(ex).__name__ + ": " + str(ex)[:60]
    finally:
        doing.time, timing.time = saved
    cfg = "%s:%s->%s" % (how, t0arg, t1)
    if err:
        viol.append(("raises:%s" % err.split(":")[0], "do() raised %s (config %s)" % (err, cfg)))
    else:
        for k, s in enumerate(starts):
            if s - t_call < k * Trun:
                cause = "clock-step" if clk.jumps else ("tock-changed-before-run" if how == "assign" and t0arg != t1 else "steady")
                viol.append(("early:%s" % cause, "config %s tock %s: cycle %d started after %s s of real time (< %s); starts %s sleeps %s steps %s"
                             % (cfg, Trun, k, s - t_call, k * Trun, [x - t_call for x in starts], clk.sleeps, clk.jumps)))
                break
        if not viol and not clk.jumps:
            # lossless pacing model: deadlines t0 + k*T never move; wait only while the deadline is ahead
            model = [starts[0]]
            si = 0
            ok = True
            for k in range(1, len(starts)):
                ready = model[k - 1] + consumed[k - 1]
                deadline = t_call + k * Trun
                if ready >= deadline:
                    model.append(ready)
                else:
                    now = ready
                    while now < deadline and si < len(clk.sleeps):
                        dd, ov = clk.sleeps[si]
                        si += 1
                        now = now + dd + ov
                    model.append(now)
                if starts[k] != model[k]:
                    ok = False
                    late = starts[k] > model[k]
                    cause = "tock-changed-before-run" if how == "assign" and t0arg != t1 else "steady"
                    viol.append(("drift:%s:%s" % ("late" if late else "early", cause),
                                 "config %s tock %s: cycle %d started at %s, lossless model says %s; consumed %s sleeps %s"
                                 % (cfg, Trun, k, starts[k] - t_call, model[k] - t_call, consumed, clk.sleeps)))
                    break
        if not viol and clk.jumps:
            # with backward steps: deadline k is t0 + k*T plus the real time the steps so far could hide; a cycle starts when it is
            # ready and its deadline has passed, i.e. at the end of the sleep that reached the deadline
            ends = sorted(getattr(clk, "sleep_ends", {}))
            for k in range(1, len(starts)):
                ready = starts[k - 1] + consumed[k - 1]
                want = None
                for c in [ready] + [x for x in ends if x > ready]:      # the moments the run loop looks at its timer
                    hidden = sum(l for t, l in clk.lost if t <= c)
                    if c >= t_call + k * Trun + hidden:
                        want = c
                        break
                if want is None or starts[k] != want:
                    viol.append(("drift:%s:clock-step" % ("late" if want is None or starts[k] > want else "early"),
                                 "config %s tock %s: cycle %d started at %s; counting the real time hidden by backward steps the first "
                                 "wake-up at or after its deadline is %s; consumed %s sleeps %s steps %s hidden %s" % (
                                     cfg, Trun, k, starts[k] - t_call, None if want is None else want - t_call, consumed, clk.sleeps,
                                     [(t - t_call, j) for t, j in clk.jumps], [(t - t_call, l) for t, l in clk.lost])))
                    break
    obs = (tuple(x - t_call for x in starts), tuple(clk.sleeps), tuple(clk.jumps))
    return Outcome(obs=obs, violations=viol, states=[(k, round(s - t_call, 3)) for k, s in enumerate(starts)],
                   sample=dict(config=cfg, starts=[x - t_call for x in starts], consumed=consumed, sleeps=clk.sleeps, clock_steps=clk.jumps))


run_job, replay = standard(harness, BOUND)
