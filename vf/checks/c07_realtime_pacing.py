"""C07 - real-time pacing never runs early and does not drift (E1 over a fake clock)."""
from .. import treeguard
from ..explore import Outcome, standard, sharded

treeguard()
from hio.base import doing  # noqa: E402
from hio.help import timing  # noqa: E402

PID = "C07"
LEVEL = "model_checking"
ASSUMPTIONS = [
    "wall clock and sleep replaced by a fake clock installed as the module global `time` of hio.base.doing and hio.help.timing",
    "true elapsed time advances only through sleep(d) (by d plus a chosen overshoot) and through the time doers consume; the system "
    "clock is true time plus an offset the explorer may step backwards at any clock read; forward jumps are excluded as in the statement",
    "all durations are multiples of 1/8 s so float arithmetic is exact",
]
CONFIGS = [("ctor", 1.0, None), ("assign", None, 0.5), ("assign", 1.0, 2.0), ("assign", 2.0, 0.5), ("ctor", 0.25, None)]


def BOUND(tier):
    return 2 if tier == "quick" else 3


def RULE(tier):
    return ("real Doist(real=True).do() with one scripted doer for %d cycles; tock set at construction or assigned before do() (5 "
            "configurations); every execution with <= %d deviations among: real time consumed by a recur in {0, T/2, 3T/2}, sleep "
            "overshoot in {0, T/4, T, 5T/2}, backward system-clock step in {0, T/2, 3T} at any clock read (incl. a 'stall' equal to the "
            "time just slept). Oracle: cycle k starts at true elapsed time >= k*T (T = doist.tock when do() is called); without clock "
            "steps the start of cycle k equals max(ready_k, t0 + k*T + overshoot) (lossless pacing model)." % (4 if tier == "quick" else 5, BOUND(tier)))


def EXHAUSTIVE(tier):
    return False


def jobs(tier):
    n = 4 if tier == "quick" else 5
    return sharded([("C07", i, n) for i in range(len(CONFIGS))], 4 if tier == "quick" else 16)


class FakeClock:
    def __init__(self, ch, T):
        self.ch, self.T = ch, T
        self.true = 1000.0
        self.off = 0.0
        self.jumps = []
        self.sleeps = []
        self.last_slept = 0.0
        self.armed = False

    def time(self):
        if self.armed:
            alts = [0.0, self.T / 2, 3 * self.T]
            if self.last_slept:
                alts.append(self.last_slept)     # stall: the clock shows no progress over the last sleep
            j = alts[self.ch.choose(len(alts), "clock-step")]
            if j:
                self.off -= j
                self.jumps.append((self.true, j))
        return self.true + self.off

    def sleep(self, d):
        ov = 0.0
        if self.armed:
            ov = [0.0, self.T / 4, self.T, 2.5 * self.T][self.ch.choose(4, "overshoot")]
        self.true += d + ov
        self.last_slept = d + ov
        self.sleeps.append((d, ov))
        if len(self.sleeps) > 200:
            raise RuntimeError("sleep loop does not terminate")

    def consume(self, c):
        self.true += c
        self.last_slept = 0.0


def harness(job, ch):
    how, t0arg, t1 = CONFIGS[job[1]]
    ncycles = job[2]
    T = t1 if t1 is not None else t0arg
    clk = FakeClock(ch, T)
    saved = (doing.time, timing.time)
    doing.time = clk
    timing.time = clk
    starts = []
    consumed = []
    viol = []
    try:
        class Work(doing.Doer):
            def recur(self, tyme):
                starts.append(clk.true)
                c = [0.0, T / 2, 1.5 * T][ch.choose(3, "consume")]
                clk.consume(c)
                consumed.append(c)
                return len(starts) > ncycles

        d = doing.Doist(real=True, tock=t0arg, doers=[Work()]) if t0arg is not None else doing.Doist(real=True, doers=[Work()])
        if how == "assign":
            d.tock = t1
        Trun = d.tock
        clk.armed = True
        t_call = clk.true
        err = None
        try:
            d.do()
        except Exception as ex:
            err = type(ex).__name__ + ": " + str(ex)[:60]
    finally:
        doing.time, timing.time = saved
    cfg = "%s:%s->%s" % (how, t0arg, t1)
    if err:
        viol.append(("raises:%s" % err.split(":")[0], "do() raised %s (config %s)" % (err, cfg)))
    else:
        for k, s in enumerate(starts):
            if s - t_call < k * Trun:
                cause = "clock-step" if clk.jumps else ("tock-changed-before-run" if how == "assign" and t0arg != t1 else "steady")
                viol.append(("early:%s" % cause, "config %s tock %s: cycle %d started after %s s of real time (< %s); starts %s sleeps %s steps %s"
                             % (cfg, Trun, k, s - t_call, k * Trun, [x - t_call for x in starts], clk.sleeps, clk.jumps)))
                break
        if not viol and not clk.jumps:
            # lossless pacing model: deadlines t0 + k*T never move; wait only while the deadline is ahead
            model = [starts[0]]
            si = 0
            ok = True
            for k in range(1, len(starts)):
                ready = model[k - 1] + consumed[k - 1]
                deadline = t_call + k * Trun
                if ready >= deadline:
                    model.append(ready)
                else:
                    now = ready
                    while now < deadline and si < len(clk.sleeps):
                        dd, ov = clk.sleeps[si]
                        si += 1
                        now = now + dd + ov
                    model.append(now)
                if starts[k] != model[k]:
                    ok = False
                    late = starts[k] > model[k]
                    cause = "tock-changed-before-run" if how == "assign" and t0arg != t1 else "steady"
                    viol.append(("drift:%s:%s" % ("late" if late else "early", cause),
                                 "config %s tock %s: cycle %d started at %s, lossless model says %s; consumed %s sleeps %s"
                                 % (cfg, Trun, k, starts[k] - t_call, model[k] - t_call, consumed, clk.sleeps)))
                    break
    obs = (tuple(x - t_call for x in starts), tuple(clk.sleeps), tuple(clk.jumps))
    return Outcome(obs=obs, violations=viol, states=[(k, round(s - t_call, 3)) for k, s in enumerate(starts)],
                   sample=dict(config=cfg, starts=[x - t_call for x in starts], consumed=consumed, sleeps=clk.sleeps, clock_steps=clk.jumps))


run_job, replay = standard(harness, BOUND)
