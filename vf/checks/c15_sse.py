"""C15 - server-sent events are delivered exactly regardless of line endings and splits."""
from .. import httpgen
from ..enum import Acc
from ..ref import sse as refsse

PID = "C15"
LEVEL = "model_checking"
ASSUMPTIONS = [
    "reference = WHATWG event-stream interpretation algorithm applied to the whole byte string (vf/ref/sse.py)",
    "streams end with a complete event (blank line); no BOM; ids without NUL; event id None and '' are identified",
    "delivered as a close-delimited text/event-stream body and inside chunked transfer coding (chunk boundaries = fragment "
    "boundaries, and fully chunk-per-byte)",
]

EOLS = [b"\r\n", b"\n", b"\r"]
SHAPES = [
    ["data: a"], ["data: a", "data: b"], ["id: 1", "data: a"], ["event: n", "data: a"], ["id: 1", "event: n", "data: a", "data: b"],
    ["id", "data: a"], ["data:"], ["retry: 5000", "data: a"], ["data"], ["data: a", "data:"], [": c", "data: a"], ["data:  x"], ["event: n"],
    ["id: 2", "retry: 70", "data: é"], ["data: a", ": c", "data: b"], ["foo: bar", "data: a"], ["id:", "retry: x", "data: a"],
    # values that themselves hold a colon (and a colon followed by a space), with and without the space after the field's colon
    ["data:a: b"], ["id:k: 8", "data: x:y"], ["event:n:m", "data::"],
]
HEAD = b"HTTP/1.1 200 OK\r\nContent-Type: text/event-stream\r\n"


def RULE(tier):
    return ("streams of 1-%d events built from %d event shapes (id, event, 1-2 data lines incl. empty and colon-less, retry, comment, "
            "unknown field, values holding colons); line terminators: every assignment of CRLF/LF/CR per line for single events, uniform and every single "
            "deviation from uniform for multi-event streams; delivery: close-delimited and chunked, every partition with <= %d cuts "
            "(single events) / <= 1 cut (multi) and byte-by-byte; plus resumption: every stream cut inside an unfinished line (6 kinds of tail), "
            "followed on a new connection by every stream, parsed by the same Respondent (uniform terminators). Oracle: Respondent.events/.leid/.retry equal the WHATWG reference "
            "parser's dispatched events, last id, retry. One case = (stream, terminators, framing, partition)."
            % ((2, len(SHAPES), 2) if tier == "quick" else (3, len(SHAPES), 3)))


def EXHAUSTIVE(tier):
    return True


def jobs(tier):
    js = [("one", i) for i in range(len(SHAPES))]
    # quick: the first 8 shapes squared, plus every remaining shape (blocks that dispatch nothing, reset the id, ...) followed by
    # a plain unnamed event and by a named one: state left behind by one block must not leak into the next event
    pairs = [(i, j) for i in range(len(SHAPES)) for j in range(len(SHAPES)) if (tier != "quick" or (i < 8 and j < 8) or (i >= 8 and j in (0, 3)))]
    js += [("two", i, j) for i, j in pairs]
    if tier != "quick":
        js += [("three", i, j, k) for i in range(5) for j in range(5, 9) for k in (0, 2, 12)]
    js += [("resume", i) for i in range(len(SHAPES))]
    return js


def assignments_all(n):
    if n == 0:
        yield ()
        return
    for rest in assignments_all(n - 1):
        for e in range(3):
            yield rest + (e,)


def assignments_near_uniform(n):
    seen = set()
    for u in range(3):
        base = (u,) * n
        if base not in seen:
            seen.add(base)
            yield base
        for i in range(n):
            for d in range(3):
                a = base[:i] + (d,) + base[i + 1:]
                if a not in seen:
                    seen.add(a)
                    yield a


def build(shapes, assign):
    lines = []
    for sh in shapes:
        lines.extend(sh)
        lines.append("")
    out = bytearray()
    for ln, e in zip(lines, assign):
        out += ln.encode("utf-8") + EOLS[e]
    return bytes(out), len(lines)


def deliver(stream, cuts, chunked):
    """returns (events, leid, retry, exc) observed from a real Respondent"""
    frags = []
    pos = 0
    for c in list(cuts) + [len(stream)]:
        frags.append(stream[pos:c])
        pos = c
    if chunked:
        wire = [HEAD + b"Transfer-Encoding: chunked\r\n\r\n"]
        for f in frags:
            if f:
                wire.append(b"%x\r\n" % len(f) + f + b"\r\n")
        wire.append(b"0\r\n\r\n")
        res, left, exc = httpgen.drive("rsp", wire, close_at_end=False)
    else:
        wire = [HEAD + b"\r\n"] + frags
        res, left, exc = httpgen.drive("rsp", wire, close_at_end=True)
    if exc:
        return None, None, None, exc
    snap = [m for m in res if m[0] == "rsp"] or [m[1:] for m in res if m[0] == "partial"]
    if not snap:
        return [], None, None, ("no-result", "")
    m = snap[-1]
    return list(m[16]), m[17], m[18], None


def deliver_wirecut(stream, c):
    """the stream as ONE chunk of a chunked body, the wire bytes of the body cut at position c (also inside the chunk framing)"""
    part = b"%x\r\n" % len(stream) + stream + b"\r\n0\r\n\r\n"
    wire = [HEAD + b"Transfer-Encoding: chunked\r\n\r\n" + part[:c], part[c:]]
    res, left, exc = httpgen.drive("rsp", wire, close_at_end=False)
    if exc:
        return None, None, None, exc
    snap = [m for m in res if m[0] == "rsp"] or [m[1:] for m in res if m[0] == "partial"]
    if not snap:
        return [], None, None, ("no-result", "")
    m = snap[-1]
    return list(m[16]), m[17], m[18], None


def norm_events(evs):
    return [((i or ""), n, d) for i, n, d in evs]


def check(shapes_idx, assign, cuts, chunked):
    stream, nlines = build([SHAPES[i] for i in shapes_idx], assign)
    want_ev, want_id, want_retry = refsse.parse(stream)
    if chunked == 2:       # one chunk, the wire cut at cuts[0] (framing included)
        evs, leid, retry, exc = deliver_wirecut(stream, cuts[0])
    else:
        evs, leid, retry, exc = deliver(stream, cuts, chunked)
    term = "uniform-" + ["crlf", "lf", "cr"][assign[0]] if len(set(assign)) == 1 else "mixed"
    frag = "oneshot" if not cuts else ("bytewise" if len(cuts) == len(stream) - 1 else "cut")
    ctx = "%s:%s" % (term, "oneshot" if frag == "oneshot" else "fragmented")
    if exc:
        return [("sse-raises:%s:%s" % (exc[0], ctx), "stream %r raised %r" % (stream, exc))]
    v = []
    got = norm_events(evs)
    if got != want_ev:
        kind = "missing" if len(got) < len(want_ev) else "extra" if len(got) > len(want_ev) else "content"
        emptydata = any(d == "" for _, _, d in want_ev) and [e for e in want_ev if e[2] != ""] == got
        if emptydata:
            kind = "empty-data-not-dispatched"
        v.append(("sse-events:%s:%s" % (kind, ctx), "stream %r cuts %s: events %r, reference %r" % (stream, list(cuts)[:6], got, want_ev)))
    else:
        if (leid or "") != want_id:
            v.append(("sse-leid:%s" % ctx, "stream %r: leid %r, reference %r" % (stream, leid, want_id)))
        if retry != (want_retry if want_retry is not None else 100):
            v.append(("sse-retry:%s" % ctx, "stream %r: retry %r, reference %r" % (stream, retry, want_retry)))
    return v


PARTIALS = [b"data: par", b"id: 9", b"da", b"data: x\r", b": comm", b"event: ev\ndata: half"]     # what the cut leaves unfinished


def check_resume(i, j, e, pi):
    """stream i ends in an unfinished line when the connection is cut; the client reconnects and stream j arrives, parsed by the
    same Respondent: the unfinished tail is discarded (WHATWG: at end of stream incomplete data is thrown away), the events are
    those of stream i followed by those of stream j"""
    first, _ = build([SHAPES[i]], (e,) * (len(SHAPES[i]) + 1))
    second, _ = build([SHAPES[j]], (e,) * (len(SHAPES[j]) + 1))
    # each stream is interpreted on its own (WHATWG: the buffers, including the last event ID buffer, are initialised per stream)
    want_ev = refsse.parse(first)[0] + refsse.parse(second)[0]
    wire = [HEAD + b"\r\n" + first + PARTIALS[pi], HEAD + b"\r\n" + second]
    res, left, exc = httpgen.drive("rsp", wire, close_at_end=True, close_after=0)
    ctx = "uniform-" + ["crlf", "lf", "cr"][e]
    if exc:
        return [("sse-raises:%s:resumed:%s" % (exc[0], ctx), "streams %r / %r raised %r" % (first + PARTIALS[pi], second, exc))]
    snap = [m for m in res if m[0] == "rsp"] or [m[1:] for m in res if m[0] == "partial"]
    if not snap:
        return [("sse-events:missing:resumed:%s" % ctx, "no result for %r then %r" % (first + PARTIALS[pi], second))]
    m = snap[-1]
    got, leid, retry = norm_events(list(m[16])), m[17], m[18]
    v = []
    what = "stream %r cut there, then on the new connection %r" % (first + PARTIALS[pi], second)
    if got != want_ev:
        kind = "missing" if len(got) < len(want_ev) else "extra" if len(got) > len(want_ev) else "content"
        v.append(("sse-events:%s:resumed:%s" % (kind, ctx), "%s: events %r, reference %r" % (what, got, want_ev)))
    return v      # (what last id / retry a resumed client should end up with is not compared: the statement does not say)


def run_job(job, tier, seed):
    acc = Acc(job)
    if job[0] == "resume":
        i = job[1]
        for j in range(len(SHAPES)):
            for e in range(3):
                for pi in range(len(PARTIALS)):
                    viols = check_resume(i, j, e, pi)
                    acc.case(["resume", i, j, e, pi], "ok" if not viols else viols[0][0], viols) if (viols or (j + e + pi) % 7 == 0) else acc.bulk(1, 1)
        acc.r.obs.add(hash(("resume", i)))
        return acc.result()
    idx = tuple(job[1:])
    nlines = sum(len(SHAPES[i]) + 1 for i in idx)
    maxcuts = (2 if tier == "quick" else 3) if len(idx) == 1 else 1
    assigns = assignments_all(nlines) if len(idx) == 1 else assignments_near_uniform(nlines)
    cnt = 0
    for assign in assigns:
        stream, _ = build([SHAPES[i] for i in idx], assign)
        n = len(stream)
        cutsets = [()]
        cutsets += [(a,) for a in range(1, n)]
        if maxcuts >= 2:
            cutsets += [(a, b) for a in range(1, n) for b in range(a + 1, n)]
        if maxcuts >= 3 and n <= 22:
            cutsets += [(a, b, c) for a in range(1, n) for b in range(a + 1, n) for c in range(b + 1, n)]
        cutsets.append(tuple(range(1, n)))
        if len(set(assign)) == 1:      # uniform terminators: the chunked wire cut at every position, chunk framing included
            for c in range(1, len(b"%x\r\n" % n) + n + 7):
                viols = check(idx, assign, (c,), 2)
                cnt += 1
                acc.case([list(idx), list(assign), [c], 2], "ok" if not viols else viols[0][0], viols) if (viols or cnt % 4999 == 1) else acc.bulk(1, 1)
        for cuts in cutsets:
            for chunked in (False, True):
                viols = check(idx, assign, cuts, chunked)
                cnt += 1
                if viols or cnt % 4999 == 1:
                    acc.case([list(idx), list(assign), list(cuts), chunked], "ok" if not viols else viols[0][0], viols,
                             sample=dict(stream=repr(stream), cuts=list(cuts)[:8], chunked=chunked, reference=repr(refsse.parse(stream))))
                else:
                    acc.bulk(1, 1)
    acc.r.obs.add(hash(idx))
    return acc.result()


def replay(job, case):
    if case and case[0] == "resume":
        return check_resume(*[int(x) for x in case[1:]])
    idx, assign, cuts, chunked = case
    return check(tuple(idx), tuple(assign), tuple(cuts), chunked if chunked == 2 else bool(chunked))
