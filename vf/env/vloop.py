"""Virtual asyncio event loop stepped by hand: the explorer picks which ready handle runs next."""
import asyncio
import heapq
from asyncio import events


class VLoop(asyncio.BaseEventLoop):
    def __init__(self):
        super().__init__()
        self._vtime = 0.0

    def time(self):
        return self._vtime

    def _process_events(self, event_list):
        pass

    def _write_to_self(self):
        pass


class Deadlock(Exception):
    pass


def drive(coro_factory, pick, competitors=(), maxsteps=2000):
    """Run coro_factory() as a task on a fresh virtual loop until it is done.

    pick(n) -> index of the ready handle to run next (0 == asyncio's own FIFO order).
    competitors: coroutine factories started as tasks before the main one.
    Returns (result | None, exception | None, steps)."""
    loop = VLoop()
    events._set_running_loop(loop)
    try:
        others = [loop.create_task(c()) for c in competitors]
        task = loop.create_task(coro_factory())
        steps = 0
        escaped = None
        while not task.done():
            steps += 1
            if steps > maxsteps:
                raise Deadlock("virtual loop exceeded %d steps" % maxsteps)
            if not loop._ready:
                if not loop._scheduled:
                    raise Deadlock("main task not done and nothing runnable")
                h = heapq.heappop(loop._scheduled)
                h._scheduled = False
                loop._vtime = max(loop._vtime, h._when)
                loop._ready.append(h)
            n = len(loop._ready)
            i = pick(n) if n > 1 else 0
            handle = loop._ready[i]
            del loop._ready[i]
            if not handle._cancelled:
                try:
                    handle._run()
                except (SystemExit, KeyboardInterrupt) as ex:
                    # asyncio sets these on the task AND lets them fly out of run_forever()/asyncio.run() to the caller
                    escaped = ex
                    break
        for t in others:
            t.cancel()
        # let cancellations settle
        for _ in range(50):
            if not loop._ready:
                break
            h = loop._ready.popleft()
            if not h._cancelled:
                h._run()
        if escaped is not None:
            if task.done() and not task.cancelled():
                task.exception()       # mark as retrieved
            return None, escaped, steps
        exc = task.exception() if not task.cancelled() else asyncio.CancelledError()
        res = None if exc else task.result()
        return res, exc, steps
    finally:
        events._set_running_loop(None)
        try:
            loop._ready.clear()
            loop._scheduled.clear()
            loop.close()
        except Exception:
            pass
