# generated: plain replay of one counterexample, no explorer involved
import json, subprocess, sys
def test_replay():
    r = subprocess.run(['/verif/check', 'C06', '--replay', '/verif/replays/C06-6e94ddbddc.json'], capture_output=True, text=True)
    assert r.returncode == 0, r.stdout
if __name__ == '__main__':
    test_replay()
