"""C03 - virtual-time scheduling follows the documented cycle model"""
from .. import sched, sched_mon
from ..explore import Outcome, standard, sharded

PID = "C03"
LEVEL = "model_checking"
ASSUMPTIONS = [
    "CPython 3.12 generator semantics; virtual time (real=False)",
    "doer forests bounded by shape depth/leaf count; per-leaf horizon 4 recurs; extend-created leaves horizon 2",
    "reference cycle model transcribed from the property statement (floats, same operation order)",
]


def BOUND(tier):
    return 2 if tier == "quick" else 3


def RULE(tier):
    return ("" if tier == "quick" else sched.THOROUGH_NOTE + ". ") + ("stateless exploration of the real Doist/DoDoer/Doer code: every doer forest shape in the tier's shape set x "
            "every execution with <= %d deviations from the default answers (config tock/start/limit, leaf kind, per-step yielded tock in {0,None,T/2,T,2T,0.1} or return True/False/None). Oracle: per-doer (cycle, tyme) sequence and global within-cycle order equal the reference cycle model run on the recorded yields; final tyme = start + cycles*tock by repeated addition. "
            "distinct_nontrivial = executions with >=1 deviation whose full event trace was not seen before." % BOUND(tier))


def EXHAUSTIVE(tier):
    return False


def jobs(tier):
    if tier == "quick":
        sh = sched.shapes(2, maxtop=3, maxleaves=3)
    else:
        sh = sched.thorough_shapes(always=False)
    sweep = [("C03", s, "sweep") for s in [("L",), ("L", "L"), (("D", False, ("L",)),), (("D", False, ("L", "L")),)]]
    return sharded(sweep, 8) + [("C03", s) for s in sh]      # the long sweep shards first: they would be the tail otherwise


def harness(job, ch):
    w = sched.run(job, ch)
    return Outcome(obs=sched.summary(w), violations=sched_mon.c03(w), states=sched.state_seq(w),
                   sample=dict(shape=repr(job[1]), trace=[list(map(str, e[:3])) for e in w.trace[:30]]))


run_job, replay = standard(harness, BOUND, job_bound=sched.tier_bound)
