"""Runner:  ./check <ID> [--tier quick|thorough] [--replay file] [--jobs N]

A check module (vf/checks/cNN_*.py) defines

    PID, LEVEL, RULE, ASSUMPTIONS (list of str)
    jobs(tier)            -> list of picklable job descriptors
    run_job(job, tier, seed) -> explore.JobResult
    replay(job, choices)  -> list of (key, message)      (re-executes one counterexample)
    optional: finish(total, tier) -> dict of extra coverage keys ; EXHAUSTIVE(tier) -> bool

The runner distributes jobs over a process pool, merges results, classifies
violations against /verif/known_findings.txt, writes replays and the evidence
file, prints VIOLATION / KNOWN-FINDING lines and sets the exit code.
"""
import argparse
import glob
import hashlib
import importlib
import json
import multiprocessing as mp
import os
import random
import subprocess
import sys
import time
import traceback

from . import VERIF, treeguard
from .explore import JobResult, Nondeterminism

FINDINGS_FILE = os.path.join(VERIF, "known_findings.txt")


def load_module(pid):
    pid = pid.upper()
    pat = os.path.join(VERIF, "vf", "checks", pid.lower() + "_*.py")
    files = glob.glob(pat)
    if len(files) != 1:
        sys.stdout.write("BROKEN: no unique check module for %s (%s)\n" % (pid, pat))
        sys.exit(2)
    name = os.path.basename(files[0])[:-3]
    return importlib.import_module("vf.checks." + name)


def load_findings(pid):
    known, fixed = {}, {}
    if os.path.exists(FINDINGS_FILE):
        for line in open(FINDINGS_FILE, encoding="utf-8"):
            line = line.strip()
            if not line or line.startswith("#"):
                continue
            if line.startswith("KNOWN-FINDING:"):
                rest = line[len("KNOWN-FINDING:"):].strip()
                f = dict(tok.split("=", 1) for tok in rest.split()[:2] if "=" in tok)
                if f.get("property") == pid:
                    known[f.get("key")] = rest
            elif line.startswith("fixed:"):
                rest = line[len("fixed:"):].strip()
                toks = rest.split()
                f = dict(tok.split("=", 1) for tok in toks if "=" in tok and tok.split("=")[0] in ("property", "key"))
                if f.get("property") == pid:
                    fixed[f.get("key")] = rest
    return known, fixed


_MOD = None
_TIER = None
_SEED = 0


def _init(pid, tier, seed):
    global _MOD, _TIER, _SEED
    devnull = open(os.devnull, "w")
    sys.stderr = devnull
    treeguard()
    _MOD = load_module(pid)
    _TIER, _SEED = tier, seed


def _work(job):
    try:
        r = _MOD.run_job(job, _TIER, _SEED)
        return ("ok", r)
    except Nondeterminism as ex:
        return ("nondet", "%s job=%r" % (ex, job))
    except BaseException:
        return ("err", "job=%r\n%s" % (job, traceback.format_exc()))


def key_hash(key):
    return hashlib.blake2b(key.encode(), digest_size=5).hexdigest()


OUT = os.environ.get("VF_OUT") or VERIF      # where evidence/ and replays/ are written (VF_OUT: runs against scratch trees)


def write_replay(pid, v):
    os.makedirs(os.path.join(OUT, "replays"), exist_ok=True)
    path = os.path.join(OUT, "replays", "%s-%s.json" % (pid, key_hash(v["key"])))
    with open(path, "w") as f:
        json.dump(dict(property=pid, key=v["key"], message=v["message"], job=v["job"],
                       choices=v["choices"], ndev=v["ndev"], count=v["count"]), f, indent=1, default=repr)
    with open(path[:-5] + "_test.py", "w") as f:
        f.write("# generated: plain replay of one counterexample, no explorer involved\n"
                "import json, subprocess, sys\n"
                "def test_replay():\n"
                "    r = subprocess.run(['/verif/check', %r, '--replay', %r], capture_output=True, text=True)\n"
                "    assert r.returncode == 0, r.stdout\n"
                "if __name__ == '__main__':\n"
                "    test_replay()\n" % (pid, path))
    return path


def tojob(j):
    """JSON round-trip turns tuples into lists; checks must accept both. We normalise to tuples."""
    if isinstance(j, list):
        return tuple(tojob(x) for x in j)
    if isinstance(j, dict):
        return {k: tojob(v) for k, v in j.items()}
    return j


def do_replay(mod, pid, path):
    d = json.load(open(path))
    job = tojob(d["job"])
    got = mod.replay(job, d["choices"])
    keys = [k for k, _ in got]
    for k, m in got:
        print("replayed: key=%s %s" % (k, m))
    if d["key"] in keys:
        print("VIOLATION property=%s replay=%s" % (pid, path))
        return 1
    print("replay of %s: key %s did not reproduce (%d other violations)" % (path, d["key"], len(keys)))
    return 0


def main(argv=None):
    ap = argparse.ArgumentParser()
    ap.add_argument("pid")
    ap.add_argument("--tier", default=os.environ.get("VERIF_TIER", "quick"))
    ap.add_argument("--replay")
    ap.add_argument("--procs", type=int, default=int(os.environ.get("VF_PROCS", "0")) or min(16, os.cpu_count() or 4))
    ap.add_argument("--only", help="substring filter on repr(job) (debugging)")
    a = ap.parse_args(argv)
    pid = a.pid.upper()
    tier = a.tier if a.tier in ("quick", "thorough") else "quick"
    try:
        seed = int(os.environ.get("VERIF_SEED", "0"))
    except ValueError:
        seed = 0
    treeguard()
    mod = load_module(pid)
    if a.replay:
        return do_replay(mod, pid, a.replay)

    t0 = time.time()
    jobs = list(mod.jobs(tier))
    if a.only:
        jobs = [j for j in jobs if a.only in repr(j)]
    random.Random(seed).shuffle(jobs)  # the seed permutes exploration order only
    total = JobResult()
    broken = []
    if a.procs <= 1 or len(jobs) <= 1:
        _init(pid, tier, seed)
        sys.stderr = sys.__stderr__
        results = map(_work, jobs)
        pool = None
    else:
        pool = mp.get_context("fork").Pool(min(a.procs, len(jobs)), initializer=_init, initargs=(pid, tier, seed))
        results = pool.imap_unordered(_work, jobs, chunksize=getattr(mod, "CHUNK", 1))
    njobs = 0
    for status, r in results:
        njobs += 1
        if status == "ok":
            total.merge(r)
        else:
            broken.append((status, r))
            if len(broken) > 3:
                break
    if pool:
        pool.terminate()
        pool.join()
    if broken:
        for status, r in broken:
            print("BROKEN(%s): %s" % (status, r))
        return 2

    known, fixed = load_findings(pid)
    viols, knownhits, unstable = [], [], []
    for key, v in sorted(total.violations.items()):
        # determinism guard: re-execute the counterexample twice from scratch
        a1 = sorted(mod.replay(tojob(v["job"]), v["choices"]))
        a2 = sorted(mod.replay(tojob(v["job"]), v["choices"]))
        if [k for k, _ in a1] != [k for k, _ in a2] or key not in [k for k, _ in a1]:
            unstable.append((key, a1, a2))
            continue
        if key in known:
            knownhits.append(v)
        else:
            viols.append(v)
    if unstable and not viols:
        # nothing that was reported can be reproduced from scratch: the harness (or hidden state it does not own) is at fault
        for key, a1, a2 in unstable[:3]:
            print("BROKEN(nondeterminism): counterexample for %s does not replay identically" % key)
            print("  run1=%r\n  run2=%r" % (a1[:3], a2[:3]))
        return 2
    for key, a1, a2 in unstable:
        # seen during the exploration but not reproduced from a fresh start: the outcome of that case depended on what the
        # process had executed before (state kept by the code under test across calls). Not reported as a violation; the
        # reproducible violations below stand on their own.
        print("NOTE: %s was observed during the exploration but does not replay from a fresh start (depends on earlier calls)" % key)
    for v in knownhits:
        print("KNOWN-FINDING: %s  [seen in %d executions]" % (known[v["key"]], v["count"]))
    for v in viols:
        path = write_replay(pid, v)
        note = " (listed as fixed: %s)" % fixed[v["key"]] if v["key"] in fixed else ""
        print("VIOLATION property=%s replay=%s key=%s ndev=%d count=%d%s :: %s" % (
            pid, path, v["key"], v["ndev"], v["count"], note, v["message"][:300]))

    wall = time.time() - t0
    cov = dict(
        evaluations=total.executions,
        distinct_nontrivial=total.nontrivial,
        rule=mod.RULE if isinstance(mod.RULE, str) else mod.RULE(tier),
        samples=total.samples[:6],
        states=max(1, len(total.states) or len(total.obs)),
        transitions=max(1, len(total.transitions) or total.executions),
        traces_validated_against_impl=total.executions,
        distinct_outcomes=len(total.obs),
        jobs=njobs,
        max_deviations_reached=total.maxdev,
        max_choice_points=total.maxpoints,
        cap_hit=total.capped,
        exhaustive=bool(getattr(mod, "EXHAUSTIVE", lambda t: False)(tier)) and not total.capped,
        bound=(mod.BOUND(tier) if hasattr(mod, "BOUND") else None),
        known_findings_hit=[v["key"] for v in knownhits],
        violation_keys=[v["key"] for v in viols],
    )
    if mod.LEVEL != "model_checking":
        for k in ("states", "transitions", "traces_validated_against_impl"):
            cov.pop(k, None)
    for k, v in total.extra.items():
        cov.setdefault(k, v)
    if hasattr(mod, "finish"):
        cov.update(mod.finish(total, tier) or {})
    ev = dict(property_id=pid, tier=tier, seed=seed, level=mod.LEVEL, coverage=cov,
              assumptions=list(getattr(mod, "ASSUMPTIONS", [])), wall_s=round(wall, 3),
              violations=len(viols))
    os.makedirs(os.path.join(OUT, "evidence"), exist_ok=True)
    evpath = os.path.join(OUT, "evidence", pid + ".json")
    with open(evpath, "w") as f:
        json.dump(ev, f, indent=1, default=repr)
    ok = validate_evidence(evpath)
    print("%s tier=%s seed=%d executions=%d distinct_outcomes=%d states=%d transitions=%d maxdev=%d "
          "known=%d violations=%d wall=%.1fs" % (pid, tier, seed, total.executions, len(total.obs),
                                                 cov.get("states", 0), cov.get("transitions", 0), total.maxdev,
                                                 len(knownhits), len(viols), wall))
    if len(total.obs) <= 1 and total.executions > 1:
        print("BROKEN(vacuous): %d executions produced one single observation" % total.executions)
        return 2
    if not ok:
        return 2
    return 1 if viols else 0


def validate_evidence(path):
    schema = "/root/.vp/EVIDENCE.schema.json"
    if not os.path.exists(schema):
        schema = os.path.join(VERIF, "vf", "EVIDENCE.schema.json")
    code = ("import json,sys,jsonschema;"
            "jsonschema.validate(json.load(open(sys.argv[1])), json.load(open(sys.argv[2])))")
    for py in ("python3-vt", "/opt/veriftools/pyvenv/bin/python"):
        try:
            r = subprocess.run([py, "-c", code, path, schema], capture_output=True, text=True, timeout=60)
        except (OSError, subprocess.TimeoutExpired):
            continue
        if r.returncode != 0:
            print("BROKEN(evidence): %s does not validate: %s" % (path, r.stderr.strip().splitlines()[-1:] or r.stdout))
            return False
        return True
    return True  # validator unavailable: do not turn that into a verdict


if __name__ == "__main__":
    sys.exit(main())
