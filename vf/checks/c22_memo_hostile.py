"""C22 - memo receivers survive arbitrary datagrams and accept only authentic memos."""
from functools import lru_cache
from itertools import permutations, product

from .. import memosys as ms
from ..enum import Acc

PID = "C22"
LEVEL = "fault_enumeration"
ASSUMPTIONS = [
    "receivers: real Memoer (authic False) and real AuthMemoer (authic True), fresh per case, fed through their own receive(echoic) "
    "datagram queue, serviceAllRx() after every datagram and once more at the end",
    "valid corpus: real Memoer.rend output of one memo per (4 zeroth codes x base64/base2 headers), 2 grams (thorough: also 3); "
    "signers are fixed ed25519 seeds with non-transferable vids; memo ids from the counter-based uuid stand-in",
    "crafted grams are built by a reference gram builder written from the wire-format description (it must reproduce rend's output "
    "byte for byte; asserted in every run, a mismatch makes the check exit 2) and self-signed by a third signer",
    "authenticity oracle (authic receivers only): every inbox entry equals (text, source, vid) of a memo whose grams were all "
    "produced by that vid's signer; for unsigned traffic to a non-authic receiver only 'does not raise' is demanded",
    "a gram count of 0 in a zeroth gram is a don't-care (hio delivers an empty memo)",
]
SRC = ("10.0.0.9", 9009)      # a (host, port) duple, as datagrams from udp.PeerMemoer carry
MEMO = "hé:wörld"           # 10 bytes
MEMO3 = "hé:wörld:thrée:" * 4    # 68 bytes (a signed base64 gram other than the zeroth carries at least 45)
ALPHA12 = [0x62, 0x41, 0x42, 0x43, 0x4a, 0x5a, 0x63, 0x6c, 0x00, 0x01, 0x09, 0xff]
# 'b' (base64 head sextet 0o30), A B C J Z (code characters, Z undefined), 'c' (same first sextet as 'b'),
# 0x6c (base2 head sextet 0o33), 0x00 0x01 0x09 (base2 code tails: bAAA bAAB bAAJ), 0xff (not utf-8, not base64)


def RULE(tier):
    return ("receivers with authic False and True x (a) ALL byte strings of length <= 2 (65793) as one datagram; (b) ALL strings of "
            "length 3..4 over a 12-byte alphabet holding both head-code sextets; (c) for each gram (zeroth / other) of a valid %s "
            "memo per 4 codes x 2 header encodings: EVERY single-byte replacement by all 255 other values%s and EVERY truncation, "
            "delivered in place among the memo's intact grams%s; (d) crafted self-signed and unsigned gram sets with count in 0..3 and "
            "gram numbers from {0,1,2,5,2^24-1} (every subset, 2 orders), i.e. gram numbers at and beyond the count; (e) reordering: for "
            "every byte position of every gram of the valid memos a mutated copy (lowest and highest bit flipped) delivered together "
            "with ALL intact grams in every one of the (n+1)! delivery orders (mutant ahead of the zeroth gram, ahead of its own "
            "original, ...); (f) memo-id reuse: two 2-gram memos (and a one-gram memo) with the same memo id from two different signers, every delivery "
            "sequence of length <= %d over their four grams (replays after completion, interleavings, mixtures); (g) a signer with a transferable vid signing with its original or "
            "a rotated key against receivers whose keep holds that key, the other key, a third key or no entry; hostile datagrams come "
            "from a (host, port) source as real UDP traffic does. Oracle: no "
            "exception escapes serviceAllRx (key = escape:<innermost hio frame>:<type>); authic receivers deliver only memos all of "
            "whose grams verify for the claimed signer and equal the original; crafted sets deliver exactly when grams 0..count-1 are "
            "present. Every case is a distinct datagram sequence." % (
                "2-gram" if tier == "quick" else "2-gram and 3-gram",
                " (quick: for the two 'sure' codes at every header byte, the first body byte, the first signature byte and the last byte)" if tier == "quick" else "",
                "" if tier == "quick" else ", and once more followed by the intact original of the mutated gram",
                5 if tier == "quick" else 6))


def EXHAUSTIVE(tier):
    return True


def corpus_configs(tier):
    out = []
    for code in ms.ZCODES:
        for curt in (False, True):
            out.append((code, curt, 2))
            if tier != "quick":
                out.append((code, curt, 3))
    return out


def jobs(tier):
    js = []
    for authic in (False, True):
        for first in range(256):
            if first % 16 == 0:
                js.append(("bytes2", authic, first, first + 16))
        for a in range(len(ALPHA12)):
            js.append(("alpha", authic, a))
        for code, curt, ng in corpus_configs(tier):
            for gi in range(ng):
                nsh = 4 if code in ms.SIGNED else 1
                for k in range(nsh):
                    js.append(("mutate", authic, code, curt, ng, gi, k, nsh))
            js.append(("truncate", authic, code, curt, ng))
        for code in ms.ZCODES:
            for curt in (False, True):
                js.append(("craft", authic, code, curt))
                js.append(("reuse", authic, code, curt))
                if code in ms.SIGNED:
                    js.append(("keep", authic, code, curt))
        for code, curt, ng in corpus_configs(tier):
            for gi in range(ng):
                js.append(("orders", authic, code, curt, ng, gi))
    return js


@lru_cache(maxsize=None)
def corpus(code, curt, ng):
    """grams of a valid memo with exactly ng grams (real rend), and the delivery the intact memo must give"""
    ms.UUID.reset(0)
    memo = MEMO if ng == 2 else MEMO3
    ml = len(memo.encode())
    for size in range(ms.min_size(code, curt), ms.min_size(code, curt) + 200):
        grams, eff, ex = ms.rend(code, curt, size, memo, ms.ALICE)
        if ex is None and len(grams) == ng:
            return tuple(grams), (memo, SRC, ms.ALICE.vid if code in ms.SIGNED else None)
        ms.UUID.reset(0)
    raise RuntimeError("no gram size gives %d grams for %s curt=%s" % (ng, code, curt))


def selfcheck():
    """the reference gram builder must agree byte for byte with rend (else this check is broken, not hio)"""
    from hio.core.memo.memoing import Memoer
    for code in ms.ZCODES:
        for curt in (False, True):
            grams, want = corpus(code, curt, 2)
            ms.UUID.reset(0)
            mid = Memoer.makeMID()           # same counter value as the corpus memo
            q = (lambda n: 3 * n // 4) if curt else (lambda n: n)
            sgn = code in ms.SIGNED
            sig = q(88) if sgn else 0
            h0, h1 = q(32 + (44 if sgn else 0)), q(32)
            b0 = grams[0][h0:len(grams[0]) - sig]
            b1 = grams[1][h1:len(grams[1]) - sig]
            g0 = ms.craft(code, 2, mid, b0, ms.ALICE, curt)
            g1 = ms.craft(ms.PAIR[code], 1, mid, b1, ms.ALICE, curt)
            if [g0, g1] != list(grams) or (b0 + b1).decode() != want[0]:
                raise RuntimeError("reference gram builder disagrees with rend for %s curt=%s: %r vs %r" % (code, curt, [g0, g1], grams))


def judge_escape(ex, viols, what):
    if ex is not None:
        viols.append((ms.escape_key(ex), "%s: %r escaped the receive-side service calls" % (what, ex)))


def run_raw(authic, data):
    r = ms.receiver(authic)
    viols = []
    ex = ms.deliver(r, [(data, SRC)])
    judge_escape(ex, viols, "datagram %r (authic=%s)" % (data, authic))
    if r.inbox:
        viols.append(("delivered-from-garbage:%s" % ("authic" if authic else "plain"), "datagram %r delivered %r" % (data, list(r.inbox))))
    return ("raw", None if ex is None else type(ex).__name__, len(r.inbox)), viols


def region(code, curt, gi, pos, glen):
    """which part of a gram a byte position belongs to (message only)"""
    zo, no = ms.true_overheads(code, curt)
    sgn = code in ms.SIGNED
    sig = ((66 if curt else 88) if sgn else 0)
    q = (lambda n: 3 * n // 4) if curt else (lambda n: n)
    if pos < q(4):
        return "code"
    if pos < q(8):
        return "neck"
    if pos < q(32):
        return "mid"
    if sgn and gi == 0 and pos < q(76):
        return "vid"
    if pos >= glen - sig:
        return "signature"
    return "body"


def run_variant(authic, code, curt, ng, gi, variant, again, note=""):
    """deliver the memo's grams in order with gram gi replaced by `variant` (then optionally the intact original of gi)"""
    grams, want = corpus(code, curt, ng)
    seq = [variant if i == gi else g for i, g in enumerate(grams)]
    if again:
        seq.append(grams[gi])
    r = ms.receiver(authic)
    viols = []
    ex = ms.deliver(r, [(g, SRC) for g in seq])
    got = [tuple(x) for x in r.inbox]
    if ex is not None or (authic and got):
        what = "memo %r code=%s %s, gram %d (%s) %s replaced by %r%s (authic=%s)" % (
            want[0], code, "b2" if curt else "b64", gi, "zeroth" if gi == 0 else "other", note, variant,
            " then resent intact" if again else "", authic)
        judge_escape(ex, viols, what)
        signed = code in ms.SIGNED
        if authic:
            for x in got:
                if not signed:
                    viols.append(("unsigned-delivered:authic", "%s: authic receiver delivered %r from unsigned traffic" % (what, x)))
                elif x != want:
                    viols.append(("unauthentic-delivered:authic", "%s: authic receiver delivered %r, original is %r" % (what, x, want)))
            if got.count(want) > 1:
                viols.append(("delivered-twice:authic", "%s: delivered %d times" % (what, got.count(want))))
    return ("variant", None if ex is None else (ms.site_of(ex), type(ex).__name__), tuple(x == want for x in got)), viols


CRAFT_NUMS = [0, 1, 2, 5, 2 ** 24 - 1]


def craft_cases():
    """(count, tuple of gram numbers present, reversed?)"""
    for count in range(0, 4):
        for k in range(1, len(CRAFT_NUMS) + 1):
            for nums in product(*[(0, 1)] * len(CRAFT_NUMS)):
                if sum(nums) != k:
                    continue
                present = tuple(n for n, f in zip(CRAFT_NUMS, nums) if f)
                yield count, present, False
                if len(present) > 1:
                    yield count, present, True


def run_craft(authic, code, curt, count, present, rev, badutf=False):
    who = ms.MALLORY
    mid = ms.make_mid(1)
    bodies = {n: ("<%d>" % (n % 100)).encode() for n in present}
    if badutf:      # the bytes of the complete memo are not UTF-8 (the last gram ends in a lone lead byte)
        bodies[max(present)] = b"ok\xff\xfe"
    order = list(present)
    if rev:     # reversed, but the zeroth gram stays first (a signed gram ahead of its zeroth gram is C20's subject)
        order = [n for n in order if n == 0] + [n for n in reversed(order) if n != 0]
    seq = []
    for n in order:
        if n == 0:
            seq.append(ms.craft(code, count, mid, bodies[0], who, curt))
        else:
            seq.append(ms.craft(ms.PAIR[code], n, mid, bodies[n], who, curt))
    r = ms.receiver(authic)
    viols = []
    ex = ms.deliver(r, [(g, SRC) for g in seq])
    what = "crafted %s %s grams count=%d numbers=%r%s%s (authic=%s)" % (code, "b2" if curt else "b64", count, present,
                                                                       " reversed" if rev else "", " body not UTF-8" if badutf else "", authic)
    judge_escape(ex, viols, what)
    got = [tuple(x) for x in r.inbox]
    if badutf:
        if got:
            viols.append(("undecodable-delivered", "%s: delivered %r" % (what, got)))
        return ("craft-badutf", None if ex is None else (ms.site_of(ex), type(ex).__name__), len(got)), viols
    signed = code in ms.SIGNED
    tag = "authic" if authic else "plain"
    if authic and not signed:
        if got:
            viols.append(("unsigned-delivered:authic", "%s: delivered %r" % (what, got)))
    elif count >= 1 and ex is None:
        complete = all(n in present for n in range(count))
        text = b"".join(bodies[n] for n in range(count)).decode() if complete else None
        want = (text, SRC, who.vid if signed else None)
        if complete and got != [want]:
            viols.append(("crafted-complete-not-delivered:%s" % tag, "%s: inbox %r, expected [%r]" % (what, got, want)))
        if not complete and got:
            viols.append(("crafted-incomplete-delivered:%s" % tag, "%s: inbox %r although gram(s) below the count are missing" % (what, got)))
    return ("craft", None if ex is None else (ms.site_of(ex), type(ex).__name__), len(got)), viols


def order_perms(ng):
    """all delivery orders of {variant, intact gram 0, .., intact gram ng-1}: items are -1 (the variant) or a gram index"""
    return list(permutations([-1] + list(range(ng))))


def run_order(authic, code, curt, ng, gi, pos, val, pi):
    """the mutated copy of gram gi AND every intact gram of the memo (incl. the original of gi), in the pi-th delivery order"""
    grams, want = corpus(code, curt, ng)
    g = bytearray(grams[gi])
    g[pos] = val
    variant = bytes(g)
    order = order_perms(ng)[pi]
    seq = [variant if i == -1 else grams[i] for i in order]
    r = ms.receiver(authic)
    viols = []
    ex = ms.deliver(r, [(x, SRC) for x in seq])
    got = [tuple(x) for x in r.inbox]
    if ex is not None or (authic and got):
        what = "memo %r code=%s %s: gram %d with byte %d (%s) %#04x->%#04x delivered with all intact grams in order %r (-1 = the mutated copy) (authic=%s)" % (
            want[0], code, "b2" if curt else "b64", gi, pos, region(code, curt, gi, pos, len(g)), grams[gi][pos], val, list(order), authic)
        judge_escape(ex, viols, what)
        if authic:
            early = "mutant-first" if order.index(-1) < order.index(gi) else "mutant-after-original"
            for x in got:
                if code not in ms.SIGNED:
                    viols.append(("unsigned-delivered:authic", "%s: authic receiver delivered %r from unsigned traffic" % (what, x)))
                elif x != want:
                    viols.append(("unauthentic-delivered:authic:reordered:%s" % early, "%s: authic receiver delivered %r, original is %r" % (what, x, want)))
    return ("order", None if ex is None else (ms.site_of(ex), type(ex).__name__), tuple(x == want for x in got)), viols


REUSE_SRC = ("peerV:1", "peerA:2", "peerA:2")


@lru_cache(maxsize=None)
def reuse_pool(code, curt):
    """two 2-gram memos with the SAME memo id from two different signers (reference gram builder): V0 V1 A0 A1"""
    mid = ms.make_mid(7)
    pool = []
    for who, tag in ((ms.ALICE, b"V"), (ms.MALLORY, b"A")):
        pool.append(ms.craft(code, 2, mid, tag + b"0", who, curt))
        pool.append(ms.craft(ms.PAIR[code], 1, mid, tag + b"1", who, curt))
    # a fifth gram: a complete ONE-gram memo of the second signer under the same memo id (another count for that id)
    pool.append(ms.craft(code, 1, mid, b"W0", ms.MALLORY, curt))
    originals = [("V0V1", ms.ALICE.vid if code in ms.SIGNED else None), ("A0A1", ms.MALLORY.vid if code in ms.SIGNED else None),
                 ("W0", ms.MALLORY.vid if code in ms.SIGNED else None)]
    return tuple(pool), originals


def run_reuse(authic, code, curt, seq):
    pool, originals = reuse_pool(code, curt)
    r = ms.receiver(authic)
    viols = []
    ex = ms.deliver(r, [(pool[i], REUSE_SRC[i // 2]) for i in seq])
    names = ["V0", "V1", "A0", "A1", "W0"]
    what = "two signers using one memo id, %s %s grams delivered in order %r (authic=%s)" % (code, "b2" if curt else "b64", [names[i] for i in seq], authic)
    judge_escape(ex, viols, what)
    got = [tuple(x) for x in r.inbox]
    if authic:
        for x in got:
            if code not in ms.SIGNED:
                viols.append(("unsigned-delivered:authic", "%s: authic receiver delivered %r from unsigned traffic" % (what, x)))
            elif (x[0], x[2]) not in originals:
                kind = "mixed-signers" if x[0] in ("V0A1", "A0V1") else "wrong-signer" if x[0] in ("V0V1", "A0A1") else "other"
                viols.append(("unauthentic-delivered:authic:memo-id-reuse:%s" % kind, "%s: authic receiver delivered %r; the only memos whose grams "
                              "all verify for one signer are %r" % (what, x, originals)))
    return ("reuse", None if ex is None else (ms.site_of(ex), type(ex).__name__), tuple((x[0], x[2] == ms.ALICE.vid) for x in got)), viols


SEED0, SEED1, SEED2 = bytes(range(40, 72)), bytes(range(140, 172)), bytes(range(60, 92))


def run_keep(authic, code, curt, signer_key, keep_key, order):
    """a signer with a transferable vid (made from key 0) signs with key `signer_key` (0: not rotated, 1: rotated); the receiver's
    keep holds key `keep_key` for that vid (0, 1, 2 = some other key, -1 = no entry). The memo may be delivered only when the
    receiver's keep names the key that signed it."""
    who = ms.trans_signer(SEED0, SEED0 if signer_key == 0 else SEED1)
    ms.UUID.reset(0)
    grams = None
    for size in range(ms.min_size(code, curt), ms.min_size(code, curt) + 200):
        g, eff, ex = ms.rend(code, curt, size, MEMO, who)
        if ex is None and len(g) == 2:
            grams = g
            break
        ms.UUID.reset(0)
    if grams is None:
        return ("keep", "no-grams"), [("keep-corpus:rend-failed", "no 2-gram rendering for a transferable vid, code=%s curt=%s" % (code, curt))]
    keep = {}
    if keep_key >= 0:
        kk = ms.trans_signer(SEED0, (SEED0, SEED1, SEED2)[keep_key])
        keep = {who.vid: ms.Keyage(qvk=kk.keep[kk.vid].qvk, qss=None)}
    r = ms.receiver(authic, keep=keep)
    seq = list(grams) if order == 0 else list(reversed(grams))
    viols = []
    ex = ms.deliver(r, [(x, SRC) for x in seq])
    what = "transferable vid, signed with key %d, receiver's keep holds %s, %s grams in order %s (authic=%s)" % (
        signer_key, "no entry" if keep_key < 0 else "key %d" % keep_key, "b2" if curt else "b64", "0,1" if order == 0 else "1,0", authic)
    judge_escape(ex, viols, what)
    got = [tuple(x) for x in r.inbox]
    if authic and got and keep_key != signer_key:
        viols.append(("unauthentic-delivered:authic:transferable-vid:%s" % ("no-keep-entry" if keep_key < 0 else "other-key-in-keep"),
                      "%s: delivered %r although the signing key is not the one the receiver holds for that vid" % (what, got)))
    if authic and keep_key == signer_key and order == 0 and ex is None and got != [(MEMO, SRC, who.vid)]:
        viols.append(("authentic-not-delivered:transferable-vid", "%s: inbox %r" % (what, got)))
    return ("keep", None if ex is None else (ms.site_of(ex), type(ex).__name__), len(got)), viols


# ---------------------------------------------------------------- cases <-> jobs
def run_case(job, case):
    kind, authic = job[0], bool(job[1])
    case = list(case)
    if kind in ("bytes2", "alpha"):
        return run_raw(authic, bytes(case))
    if kind == "mutate":
        code, curt, ng, gi = job[2], bool(job[3]), job[4], job[5]
        again, pos, val = case[0], case[1], case[2]
        grams, _ = corpus(code, curt, ng)
        g = bytearray(grams[gi])
        g[pos] = val
        return run_variant(authic, code, curt, ng, gi, bytes(g), bool(again),
                           "byte %d (%s) %#04x->%#04x:" % (pos, region(code, curt, gi, pos, len(g)), grams[gi][pos], val))
    if kind == "truncate":
        code, curt, ng = job[2], bool(job[3]), job[4]
        again, gi, n = case[0], case[1], case[2]
        grams, _ = corpus(code, curt, ng)
        return run_variant(authic, code, curt, ng, gi, grams[gi][:n], bool(again), "truncated to %d of %d bytes:" % (n, len(grams[gi])))
    if kind == "craft":
        code, curt = job[2], bool(job[3])
        count, rev = case[0], case[1]
        return run_craft(authic, code, curt, count, tuple(case[4:]), bool(rev), badutf=bool(case[2]))
    if kind == "orders":
        code, curt, ng, gi = job[2], bool(job[3]), job[4], job[5]
        return run_order(authic, code, curt, ng, gi, case[0], case[1], case[2])
    if kind == "reuse":
        return run_reuse(authic, job[2], bool(job[3]), case)
    if kind == "keep":
        return run_keep(authic, job[2], bool(job[3]), case[0], case[1], case[2])
    raise ValueError(kind)


def run_job(job, tier, seed):
    acc = Acc(job)
    kind, authic = job[0], job[1]
    cnt = 0

    def do(case, sample):
        nonlocal cnt
        obs, viols = run_case(job, case)
        cnt += 1
        if viols or cnt % 997 == 1:
            acc.case(case, obs + tuple(sorted(k for k, _ in viols)), viols, sample=sample)
        else:
            acc.bulk(1, 1, outcomes=[obs])
    if kind == "bytes2":
        if job[2] == 0:
            selfcheck()
            do([], dict(datagram=""))
        for a in range(job[2], job[3]):
            do([a], dict(datagram="%02x" % a))
            for b in range(256):
                do([a, b], dict(datagram="%02x%02x" % (a, b)))
    elif kind == "alpha":
        a = ALPHA12[job[2]]
        for n in (2, 3):
            for rest in product(ALPHA12, repeat=n):
                do([a] + list(rest), dict(datagram=bytes([a] + list(rest)).hex()))
    elif kind == "mutate":
        code, curt, ng, gi, k, nsh = job[2:8]
        grams, _ = corpus(code, curt, ng)
        g = grams[gi]
        for again in ((0,) if tier == "quick" else (0, 1)):
            regs = [region(code, curt, gi, pos, len(g)) for pos in range(len(g))]
            for pos in range(len(g)):
                if pos % nsh != k:
                    continue
                if tier == "quick" and code in ("bAAE", "bAAG") and regs[pos] in ("body", "signature") and \
                        0 < pos < len(g) - 1 and regs[pos - 1] == regs[pos]:
                    continue    # quick: 'sure' codes share the plain/auth code paths; header bytes + first byte of body/signature + last byte
                for val in range(256):
                    if val != g[pos]:
                        do([again, pos, val, 0, 0], dict(code=code, curt=curt, gram=gi, pos=pos, region=region(code, curt, gi, pos, len(g)), value=val))
    elif kind == "truncate":
        code, curt, ng = job[2:5]
        grams, _ = corpus(code, curt, ng)
        for again in ((0,) if tier == "quick" else (0, 1)):
            for gi in range(ng):
                for n in range(len(grams[gi])):
                    do([again, gi, n, 0, 0], dict(code=code, curt=curt, gram=gi, kept=n, of=len(grams[gi])))
    elif kind == "orders":
        code, curt, ng, gi = job[2:6]
        grams, _ = corpus(code, curt, ng)
        g = grams[gi]
        for pos in range(len(g)):
            for val in (g[pos] ^ 0x01, g[pos] ^ 0x80):
                for pi in range(len(order_perms(ng))):
                    do([pos, val, pi], dict(code=code, curt=curt, gram=gi, pos=pos, value=val, order=list(order_perms(ng)[pi])))
    elif kind == "keep":
        for signer_key in (0, 1):
            for keep_key in (0, 1, 2, -1):
                for order in (0, 1):
                    do([signer_key, keep_key, order], dict(code=job[2], curt=job[3], signer_key=signer_key, keep_key=keep_key, order=order))
    elif kind == "reuse":
        for n in range(1, (5 if tier == "quick" else 6) + 1):
            for seq in product(range(5), repeat=n):
                do(list(seq), dict(code=job[2], curt=job[3], order=list(seq)))
    elif kind == "craft":
        for count, present, rev in craft_cases():
            do([count, 1 if rev else 0, 0, 0] + list(present), dict(code=job[2], curt=job[3], count=count, numbers=list(present), reversed=rev))
        for count in (1, 2, 3):      # complete sets whose bytes are not UTF-8: dropped without raising
            do([count, 0, 1, 0] + list(range(count)), dict(code=job[2], curt=job[3], count=count, badutf=True))
    return acc.result()


def replay(job, case):
    return run_case(job, case)[1]
