#!/bin/sh
# tools/trymut2.sh <patch.diff> <demo.py|-> <CHECK ids...> : like trymut.sh but on a private scratch worktree of /repo
# (VF_REPO_SRC / VF_OUT), so /repo itself and /verif/evidence are never touched and several can run at once
P=$(readlink -f "$1"); D="$2"; [ "$D" != "-" ] && D=$(readlink -f "$D"); shift 2
W=$(mktemp -d /dev/shm/vftm.XXXXXX 2>/dev/null || mktemp -d /var/tmp/vftm.XXXXXX)
rmdir "$W"
git -C /repo worktree add --detach "$W" HEAD >/dev/null 2>&1 || { echo "cannot make worktree"; exit 2; }
trap 'git -C /repo worktree remove --force "$W" >/dev/null 2>&1; rm -rf "$W"' EXIT
if [ "$D" != "-" ]; then
  PYTHONWARNINGS=ignore PYTHONPATH=$W/src timeout 300 /venv/bin/python "$D" >/dev/null 2>&1; echo "demo on clean tree: exit $?"
fi
git -C "$W" apply "$P" || { echo "patch does not apply"; exit 2; }
if [ "$D" != "-" ]; then
  PYTHONWARNINGS=ignore PYTHONPATH=$W/src timeout 300 /venv/bin/python "$D" >/dev/null 2>&1; echo "demo on changed tree: exit $?"
fi
for c in "$@"; do
  out=$(cd /verif && VF_REPO_SRC=$W/src VF_OUT=$W/vfout VF_PROCS=${VF_PROCS:-8} VERIF_TIER=${TIER:-quick} ./check $c --tier ${TIER:-quick} 2>&1); rc=$?
  echo "== $c exit=$rc"; echo "$out" | grep -E "VIOLATION|BROKEN" | sed "s#$W/vfout#<scratch>#" | cut -c1-260 | head -${NV:-4}
done
