"""Closed system for the TCP group: real hio tcp Client/ClientTls/Server/ServerTls over FakeNet."""
import errno
import traceback

from . import treeguard
from .env import fakenet

treeguard()
from hio.core.tcp import clienting, serving  # noqa: E402
from hio.core import wiring  # noqa: E402

FAULT_ERRNOS = [errno.ECONNRESET, errno.EPIPE, errno.ENETRESET, errno.ENETUNREACH, errno.EHOSTUNREACH,
                errno.ENETDOWN, errno.EHOSTDOWN, errno.ETIMEDOUT, errno.ECONNREFUSED]


def site_of(ex):
    """innermost hio frame of an exception as module:qualname"""
    tb = ex.__traceback__
    site = "?"
    while tb is not None:
        fn = tb.tb_frame.f_code.co_filename
        if "/hio/" in fn and "/verif/" not in fn:
            mod = fn.split("/hio/", 1)[1][:-3].replace("/", ".")
            site = "%s:%s" % (mod, getattr(tb.tb_frame.f_code, "co_qualname", tb.tb_frame.f_code.co_name))
        tb = tb.tb_next
    return site


def errname(ex):
    if isinstance(ex, OSError) and ex.errno is not None:
        import ssl
        if isinstance(ex, ssl.SSLError):
            return type(ex).__name__
        return errno.errorcode.get(ex.errno, str(ex.errno))
    return type(ex).__name__


class XPolicy(fakenet.Policy):
    """asks the explorer; `settle` switches to default answers (healthy environment)"""

    def __init__(self, ch, partial=True, faults=(), tlsfaults=False, wants=True, connect_alts=True, only=None, pending_once=False):
        self.ch = ch
        self.partial = partial
        self.faults = list(faults)
        self.tlsfaults = tlsfaults
        self.wants = wants
        self.connect_alts = connect_alts
        self.settle = False
        self.pending_once = pending_once    # the first handshake call of a watched socket may (at no cost) leave the handshake pending
        self.only = only      # restrict fault injection to sockets whose .owner is in this set
        self.injected = []

    def _faults_for(self, sock):
        if self.only is not None and getattr(sock, "owner", None) not in self.only:
            return []
        fl = [-e for e in self.faults]
        if self.tlsfaults and getattr(sock, "tls", None) is not None:
            fl.append(-fakenet.SSL_EOF)
        return fl

    def _tag(self, sock):
        return str(getattr(sock, "owner", None) or sock.id)

    def send(self, sock, n):
        if self.settle:
            return n
        alts = [n]
        if self.partial and n > 0:
            alts.append(0)
            if n > 1:
                alts.append(1)
            if n > 2:
                alts.append(n - 1)
        alts += self._faults_for(sock)
        if len(alts) == 1:
            return n
        a = alts[self.ch.choose(len(alts), "send:" + self._tag(sock))]
        if a < 0:
            self.injected.append(("send", self._tag(sock), a))
        return a

    def recv(self, sock, avail, bs):
        if self.settle:
            return min(avail, bs) if avail else 0
        m = min(avail, bs)
        alts = [m]
        if self.partial and m > 1:
            alts.append(1)
        alts += self._faults_for(sock)
        if len(alts) == 1:
            return m
        a = alts[self.ch.choose(len(alts), "recv%s:%s" % ("" if avail else "0", self._tag(sock)))]
        if a < 0:
            self.injected.append(("recv", self._tag(sock), a))
        return a

    def connect(self, sock, listening):
        if self.settle or not self.connect_alts or not listening:
            return 0
        return self.ch.choose(2, "connect:" + self._tag(sock))

    def handshake(self, sock):
        if self.settle:
            return "ok"
        if (self.pending_once and not getattr(sock, "_vf_pended", False)
                and (self.only is None or getattr(sock, "owner", None) in self.only)):
            sock._vf_pended = True      # a free choice: faults and peer events can then land while the handshake is pending
            if self.ch.choose(2, "handshake-pending:" + self._tag(sock), cost=0):
                return "want_read"
        alts = ["ok"]
        if self.wants:
            alts += ["want_read", "want_write"]
        if self.tlsfaults and (self.only is None or getattr(sock, "owner", None) in self.only):
            alts += ["eof", -errno.ECONNABORTED] + [-e for e in self.faults]
        if len(alts) == 1:
            return "ok"
        a = alts[self.ch.choose(len(alts), "handshake:" + self._tag(sock))]
        if a not in ("ok", "want_read", "want_write"):
            self.injected.append(("handshake", self._tag(sock), a))
        return a

    def tls_want(self, sock, op):
        if self.settle or not self.wants:
            return 0
        return self.ch.choose(3, "tlswant-%s:%s" % (op, self._tag(sock)))


class TcpWorld:
    """one server + n clients over a fresh FakeNet"""

    def __init__(self, ch, tls=False, bs=8096, policy=None, nclients=1, wirelog=False, port=6101,
                 server_kwa=None, client_kwa=None, tymth=None, wlflags=(True, True)):
        self.wlflags = wlflags      # (rxed, txed) of the wire logs
        self.ch = ch
        self.tls = tls
        self.policy = policy if policy is not None else XPolicy(ch)
        self.net = fakenet.Net(self.policy)
        self.installed = fakenet.Installed(self.net)
        self.installed.__enter__()
        self.escaped = []      # (where, site, errname)
        try:
            self.swl = self._wl("server") if wirelog else None
            skw = dict(host="127.0.0.1", port=port, bs=bs, wl=self.swl)
            if tymth:
                skw["tymth"] = tymth
            skw.update(server_kwa or {})
            if tls:
                self.server = serving.ServerTls(context=fakenet.FakeSSLContext(self.net), **skw)
            else:
                self.server = serving.Server(**skw)
            assert self.server.reopen()
            self.server.ss.owner = "listen"
            self.clients = []
            self.cwls = []
            for i in range(nclients):
                cwl = self._wl("client%d" % i) if wirelog else None
                ckw = dict(host="127.0.0.1", port=port, bs=bs, wl=cwl)
                if tymth:
                    ckw["tymth"] = tymth
                ckw.update(client_kwa or {})
                if tls:
                    c = clienting.ClientTls(context=fakenet.FakeSSLContext(self.net), **ckw)
                else:
                    c = clienting.Client(**ckw)
                c.reopen()
                c.cs.owner = "c%d" % i
                self.clients.append(c)
                self.cwls.append(cwl)
        except BaseException:
            self.close()
            raise

    def _wl(self, name):
        wl = wiring.WireLog(samed=False, filed=False, fmt=b"%(data)b", name=name, rxed=self.wlflags[0], txed=self.wlflags[1])
        wl.reopen()
        return wl

    def tag_server_socks(self):
        """give accepted server-side sockets an owner tag s<i> matching their client"""
        for s in self.net.socks:
            if s.owner is None and s.peer is not None and s.peer.owner and str(s.peer.owner).startswith("c"):
                s.owner = "s" + str(s.peer.owner)[1:]

    def remoter_of(self, i):
        c = self.clients[i]
        raw = getattr(c.cs, "raw", c.cs) if c.cs is not None else None
        if raw is None or raw.name is None:
            return None
        for table in (self.server.ixes, getattr(self.server, "cxes", {})):
            r = table.get(raw.name)
            if r is not None:
                return r
        return None

    def service_client(self, i, where="client.service"):
        try:
            self.clients[i].service()
            return True
        except BaseException as ex:
            self.escaped.append((where, site_of(ex), errname(ex)))
            return False

    def service_server(self, where="server.service"):
        try:
            self.server.service()
            ok = True
        except BaseException as ex:
            self.escaped.append((where, site_of(ex), errname(ex)))
            ok = False
        self.tag_server_socks()
        return ok

    def round(self):
        for i in range(len(self.clients)):
            self.service_client(i)
        self.service_server()

    def close(self):
        try:
            self.installed.__exit__(None, None, None)
        finally:
            pass
