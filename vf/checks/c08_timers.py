"""C08 - timers measure elapsed tyme exactly and restart losslessly (E3: all op sequences to a depth)."""
import math

from .. import treeguard
from ..enum import Acc

treeguard()
from hio.base import tyming  # noqa: E402
from hio.help import timing  # noqa: E402

PID = "C08"
LEVEL = "model_checking"
ASSUMPTIONS = ["virtual Tymer driven through a harness-owned tymth; MonoTimer driven through a fake clock installed as hio.help.timing.time",
               "MonoTimer sequences use a dyadic grid so arithmetic is exact; forward clock jumps are indistinguishable from time passing"]

TY_OPS = [("adv", 0.5), ("adv", 1.0), ("adv", 2.5), ("adv", 0.1), ("rew", 0.5), ("rew", 1.0),
          ("start", None, None), ("start", 1.0, None), ("start", 0.0, None), ("start", 0.1, None), ("start", None, 0.5),
          ("start", 2.5, 3.0), ("restart", None), ("restart", 0.5), ("wind", "same"), ("wind", "other")]
MO_OPS = [("clk", 0.5), ("clk", 2.0), ("clk", -0.5), ("clk", -2.0), ("read", "exr"), ("read", "xre"), ("read", "rxe"),
          ("start", None), ("start", 1.0), ("restart",), ("dropafter", 0.5)]   # read: order in which elapsed / expired / remaining are read
# dropafter: the clock steps back right after its next reading (a step that lands between two readings of one operation)


# boundary sweep: non-dyadic starts and durations, tyme placed on and one / two ulps around every start and stop
B_STARTS = [0.0] + [round(0.01 + 0.07 * k, 2) for k in range(60)] + [1.73, 100.1, 123456.789, 1e9 + 0.1]
B_DURS = [round(0.03 * k, 2) for k in range(1, 120)] + [5.49, 1e-9, 3600.1, 1e6 + 0.3]


def depths(tier):
    return (5, 6) if tier == "quick" else (7, 8)


def RULE(tier):
    d = depths(tier)
    return ("every sequence of length <= %d over %d Tymer operations (advance/rewind tyme, start(duration?,start?), restart(duration?)) "
            "and wind(same or new tyme source) with a read of elapsed/remaining/expired/duration after every step, compared float-exactly with a start/stop model "
            "written from the statement; every sequence of length <= %d over %d MonoTimer/clock operations (clock +-d, read, start, "
            "restart) for retro True and False, checking per period that elapsed never decreases, expired never reverts and elapsed is 0 when read at the clock value the period was started at; plus a "
            "boundary sweep: %d non-dyadic starts x %d durations x {no restart, restart(), restart(d)} with tyme placed exactly on, "
            "one and two ulps below and above the stop and the start (12 points), same float-exact model - 'expired exactly when "
            "now >= stop' is decided at the last representable tyme before the stop. A case "
            "is one operation sequence; states = distinct (now,start,stop) triples reached." % (d[0], len(TY_OPS), d[1], len(MO_OPS),
                                                                                                  len(B_STARTS), len(B_DURS)))


def EXHAUSTIVE(tier):
    return True


def jobs(tier):
    d = depths(tier)
    js = [("tymer", i, j, d[0]) for i in range(len(TY_OPS)) for j in range(len(TY_OPS))]
    js += [("mono", retro, i, j, d[1]) for retro in (True, False) for i in range(len(MO_OPS)) for j in range(len(MO_OPS))]
    js += [("tybound", k, 8) for k in range(8)]
    return js


def boundary_points(ms, me):
    na = math.nextafter
    inf = math.inf
    pts = [me, na(me, -inf), na(me, inf), na(na(me, -inf), -inf), na(na(me, inf), inf), ms, na(ms, -inf), na(ms, inf),
           ms + (me - ms) / 2, ms + (me - ms), me - 1e-9, me + 1e-9]
    out = []
    for x in pts:
        if x not in out:
            out.append(x)
    return out


def run_tybound(case, states=None):
    """case = [start, duration, restart-duration or -1 (no restart) or -2 (restart(None)), point index]"""
    st, dur, rd, pi = case
    now = [0.0]
    tm = tyming.Tymer(tymth=lambda: now[0], duration=1.0)
    tm.start(duration=dur, start=st)
    ms, me = st, st + dur
    if rd != -1:
        d = (me - ms) if rd == -2 else rd
        ms, me = me, me + d
        tm.restart(duration=None if rd == -2 else rd)
    pts = boundary_points(ms, me)
    if pi >= len(pts):
        return None
    now[0] = pts[pi]
    got = (tm.elapsed, tm.remaining, tm.expired, tm.duration)
    want = (now[0] - ms, me - now[0], now[0] >= me, me - ms)
    if states is not None:
        states.add((now[0], ms, me))
    if got != want:
        names = ("elapsed", "remaining", "expired", "duration")
        bad = [names[i] for i in range(4) if got[i] != want[i]]
        where = "at-stop" if now[0] == me else "below-stop" if now[0] < me else "above-stop"
        return [("tymer:%s:boundary:%s" % ("+".join(bad), where),
                 "start(duration=%r, start=%r)%s, tyme=%r (stop=%r): (elapsed,remaining,expired,duration)=%r, model %r" % (
                     dur, st, "" if rd == -1 else ", restart(%r)" % (None if rd == -2 else rd), now[0], me, got, want))]
    return []


class Clock:
    def __init__(self):
        self.t = 100.0
        self.drop = 0.0      # the clock steps back by this much right AFTER its next reading (between two readings of one operation)

    def time(self):
        t = self.t
        if self.drop:
            self.t -= self.drop
            self.drop = 0.0
        return t


def run_tymer(seq, states=None):
    """returns violations; model in lock step"""
    now = [0.0]
    tymth = lambda: now[0]
    tm = tyming.Tymer(tymth=tymth, duration=1.0)
    ms, me = 0.0, 0.0 + 1.0
    v = []
    for k, op in enumerate(seq):
        if op[0] == "wind":
            # (re)wind to a tyme source - the one it already has, or an equivalent new closure: documented as "restarting at the
            # new tymist time", i.e. start() at the current tyme with the current duration
            d = me - ms
            ms = now[0]
            me = ms + d
            tm.wind(tymth if op[1] == "same" else (lambda: now[0]))
        elif op[0] == "adv":
            now[0] = now[0] + op[1]
        elif op[0] == "rew":
            now[0] = now[0] - op[1]
        elif op[0] == "start":
            dur, st = op[1], op[2]
            d = dur if dur is not None else (me - ms)
            ms = st if st is not None else now[0]
            me = ms + d
            tm.start(duration=dur, start=st)
        elif op[0] == "restart":
            d = op[1] if op[1] is not None else (me - ms)
            ms = me
            me = ms + d
            tm.restart(duration=op[1])
        got = (tm.elapsed, tm.remaining, tm.expired, tm.duration)
        want = (now[0] - ms, me - now[0], now[0] >= me, me - ms)
        if got != want:
            names = ("elapsed", "remaining", "expired", "duration")
            bad = [names[i] for i in range(4) if got[i] != want[i]]
            v.append(("tymer:%s:after-%s" % ("+".join(bad), op[0]),
                      "after %r: (elapsed,remaining,expired,duration)=%r, model %r" % (seq[:k + 1], got, want)))
            break
        if states is not None:
            states.add((now[0], ms, me))
    return v


def run_mono(retro, seq, states=None):
    clk = Clock()
    saved = timing.time
    timing.time = clk
    v = []
    try:
        tm = timing.MonoTimer(duration=1.0, retro=retro)
        last_el, was_exp = None, False
        forward = True                       # the clock has not gone backwards so far: then the timer is plain arithmetic
        mstart, mdur = clk.t, 1.0            # model period (start, duration) while forward
        for k, op in enumerate(seq):
            if op[0] == "clk":
                clk.t = clk.t + op[1]
                if op[1] < 0:
                    forward = False
                continue
            if op[0] == "dropafter":
                clk.drop = op[1]
                forward = False
                continue
            if op[0] == "start":
                stepped = bool(clk.drop)              # the clock steps back right after the reading this start() makes
                tm.start(duration=op[1])
                mstart, mdur = clk.t, (op[1] if op[1] is not None else mdur)
                last_el, was_exp = None, False
                if not stepped and k + 1 < len(seq) and seq[k + 1][0] == "read":      # read at the very clock value the period was started at
                    try:
                        el = tm.elapsed
                    except timing.RetroTimerError:
                        v.append(("mono:retrograde-reported-right-after-start:retro=%s" % retro, "RetroTimerError when elapsed is read at the "
                                  "clock value the period was just started at, after %r" % (seq[:k + 1],)))
                        break
                    if el != 0.0:
                        v.append(("mono:elapsed-not-zero-at-start:retro=%s" % retro, "elapsed is %r right after start() at the same clock "
                                  "value, after %r" % (el, seq[:k + 1])))
                        break
                continue
            if op[0] == "restart":
                tm.restart()
                mstart = mstart + mdur               # lossless: the next period begins at the previous stop
                last_el, was_exp = None, False
                continue
            try:
                vals = {}
                for which in op[1]:
                    vals[which] = tm.elapsed if which == "e" else tm.expired if which == "x" else tm.remaining
                el, ex, rem = vals["e"], vals["x"], vals["r"]
            except timing.RetroTimerError:
                if retro:
                    v.append(("mono:raises-with-retro", "RetroTimerError with retro=True after %r" % (seq[:k + 1],)))
                    break
                continue
            if forward and (el, rem) != (clk.t - mstart, mstart + mdur - clk.t):
                v.append(("mono:forward-clock-arithmetic:retro=%s" % retro, "clock never went backwards, period starts at %r for %r, now %r: elapsed %r "
                          "remaining %r after %r" % (mstart, mdur, clk.t, el, rem, seq[:k + 1])))
                break
            if last_el is not None and el < last_el:
                v.append(("mono:elapsed-decreased:retro=%s" % retro, "elapsed went %r -> %r after %r" % (last_el, el, seq[:k + 1])))
                break
            if was_exp and not ex:
                v.append(("mono:expired-reverted:retro=%s" % retro, "expired went True -> False after %r" % (seq[:k + 1],)))
                break
            if ex != (rem <= 0):
                v.append(("mono:expired-vs-remaining", "expired %r but remaining %r after %r" % (ex, rem, seq[:k + 1])))
                break
            last_el, was_exp = el, ex
            if states is not None:
                states.add((clk.t, el, ex))
    finally:
        timing.time = saved
    return v


def run_job(job, tier, seed):
    acc = Acc(job)
    states = set()
    if job[0] == "tybound":
        n = 0
        rds = [-1, -2] + (B_DURS[::17] if tier == "quick" else B_DURS[::5])
        for si, st in enumerate(B_STARTS):
            if si % job[2] != job[1]:
                continue
            for dur in B_DURS:
                for rd in rds:
                    for pi in range(12):
                        case = [st, dur, rd, pi]
                        viols = run_tybound(case, states)
                        if viols is None:
                            continue
                        n += 1
                        if viols or n % 9973 == 1:
                            acc.case(case, viols[0][0] if viols else "ok", viols or ())
                        else:
                            acc.bulk(1, 1)
        for st in states:
            acc.state(st)
        acc.r.obs.add(hash("tybound"))
        return acc.result()
    if job[0] == "tymer":
        ops, i, j, depth = TY_OPS, job[1], job[2], job[3]
        runner = lambda seq: run_tymer(seq, states)
    else:
        ops, i, j, depth = MO_OPS, job[2], job[3], job[4]
        retro = job[1]
        runner = lambda seq: run_mono(retro, seq, states)
    n = len(ops)
    nseq = 0

    def rec(seq):
        nonlocal nseq
        viols = runner(seq)
        nseq += 1
        if viols:
            acc.case([list(o) for o in seq], viols[0][0], viols)
            return  # extensions of a failing sequence add nothing
        if nseq % 9973 == 1:
            acc.case([list(o) for o in seq], "ok", ())
        else:
            acc.bulk(1, 1)
        if len(seq) < depth:
            for o in ops:
                rec(seq + [o])
    if i == 0 and j == 0:
        for o in ops:
            viols = runner([o])
            acc.case([list(o)], "ok" if not viols else viols[0][0], viols)
    rec([ops[i], ops[j]])
    for s in states:
        acc.state(s)
    acc.r.obs.add(hash(("n", len(states) > 1)))
    acc.r.obs.add(hash(job[0]))
    return acc.result()


def replay(job, seq):
    if job[0] == "tybound":
        return run_tybound(list(seq)) or []
    seq = [tuple(o) for o in seq]
    if job[0] == "tymer":
        return run_tymer(seq)
    return run_mono(bool(job[1]), seq)
