#!/bin/sh
# tools/detrow.sh <seeded name>... : re-run the listed seeded changes and replace (or add) their rows in DETECTION.md
cd /verif || exit 2
cp DETECTION.md /dev/shm/DET_keep.md
python3 tools/detection.py "$@" > /dev/shm/detrow.log 2>&1
python3 - <<'PY'
full=open('/dev/shm/DET_keep.md').read().split("\n")
new={l.split("|")[1].strip(): l for l in open('/verif/DETECTION.md').read().split("\n") if l.startswith("| C")}
hdr=[]
for l in full:
    if l.startswith("| C"): break
    hdr.append(l)
rows={l.split("|")[1].strip(): l for l in full if l.startswith("| C")}
rows.update(new)
open('/verif/DETECTION.md','w').write("\n".join(hdr+[rows[k] for k in sorted(rows)])+"\n")
print("rows", len(rows), "updated", sorted(new))
PY
