"""C28 - data-object serializations round-trip losslessly (E3: all field values that are terms of bounded size)."""
from dataclasses import dataclass, fields
from typing import Any

from .. import treeguard
from ..enum import Acc

treeguard()
from hio.help import doming  # noqa: E402
from hio.help.doming import (RawDom, RegDom, TymeDom, IceRegDom, registerify, namify)  # noqa: E402

PID = "C28"
LEVEL = "exploration"
ASSUMPTIONS = ["common representable domain: None, bool, int in [-2^63, 2^64-1], finite floats, str, lists, str-keyed dicts, nested "
               "registered data objects; tuples, bytes, NaN/inf, non-string keys are unrepresentable in at least one format and excluded",
               "equality is checked with == (the statement) and additionally type-strictly (bool vs int, int vs float)"]

ATOMS = [None, True, False, 0, -1, 2 ** 63 - 1, -2 ** 63, 2 ** 64 - 1, 0.5, 1e300, "", "a", "é", "\n", " "]
KEYS = ["a", "é", ""]


@dataclass
class FlatRaw(RawDom):
    a: Any = None
    b: Any = 1


@registerify
@dataclass
class FlatReg(RegDom):
    a: Any = None
    b: Any = 1

    def __hash__(self):
        return hash(repr(self))


@namify
@registerify
@dataclass
class FlatTyme(TymeDom):
    a: Any = None
    b: Any = 1

    def __hash__(self):
        return hash(repr(self))


@registerify
@dataclass(frozen=True)
class FlatIce(IceRegDom):
    a: Any = None
    b: Any = 1


@dataclass
class Nest1(RawDom):
    x: FlatRaw = None
    y: Any = None


@dataclass
class Nest2(RawDom):
    n: Nest1 = None
    z: Any = None


@registerify
@dataclass(frozen=True)
class IceNest(IceRegDom):
    x: FlatIce = None
    y: Any = None


@registerify
@dataclass
class RegNest(RegDom):
    x: FlatReg = None
    y: FlatTyme = None

    def __hash__(self):
        return hash(repr(self))


@dataclass
class Empty(RawDom):
    """a data object without fields (serialises to an empty mapping)"""


@dataclass
class NestE(RawDom):
    e: Empty = None
    y: Any = None


@dataclass
class SubNest(Nest1):
    """inherits its nested data object field (and y) from its parent class, declares only w itself"""
    w: Any = None


@dataclass
class Under(RawDom):
    """a field whose name starts with an underscore is a field like any other"""
    _id: Any = None
    v: Any = None


@dataclass
class NestU(RawDom):
    u: Under = None
    y: Any = None


@dataclass
class Hooked(RawDom):
    """the documented hook pair: its own mapping out (_dictify) and back (_datify)"""
    a: Any = None
    b: Any = 1

    def _dictify(self):
        return {"A": self.a, "B": self.b}

    @classmethod
    def _datify(cls, d):
        return cls(a=d["A"], b=d["B"])


@dataclass
class HookedSub(Hooked):
    """inherits the hook pair from its parent class"""


@dataclass
class NestH(RawDom):
    h: Hooked = None
    y: Any = None


SHAPES = ["FlatRaw", "FlatReg", "FlatTyme", "FlatIce", "Nest1", "Nest2", "IceNest", "RegNest", "NestE", "SubNest", "Under", "NestU", "Hooked", "HookedSub"]
# (NestH, a hooked class nested in another, is not in the set: hio documents the _datify hook for nested classes and the _dictify hook
#  for the object itself only, so what a nested hook pair should do is not fixed by the documentation)
FORMATS = [("json", "_asjson", "_fromjson"), ("cbor", "_ascbor", "_fromcbor"), ("mgpk", "_asmgpk", "_frommgpk")]


def terms(size):
    """all terms of exactly `size` nodes"""
    if size == 1:
        return list(ATOMS) + [[], {}]
    out = []
    # list with children sizes summing to size-1
    for parts in compositions(size - 1):
        if len(parts) > 2:
            continue
        for kids in product([terms(p) for p in parts]):
            out.append(list(kids))
    for parts in compositions(size - 1):
        if len(parts) > 2:
            continue
        for kids in product([terms(p) for p in parts]):
            for keys in keysets(len(kids)):
                out.append(dict(zip(keys, kids)))
    return out


def keysets(n):
    if n == 1:
        return [(k,) for k in KEYS]
    return [("a", "é"), ("", "a")]


def compositions(n):
    if n == 0:
        return [[]]
    out = []
    for first in range(1, n + 1):
        for rest in compositions(n - first):
            out.append([first] + rest)
    return out


def product(lists):
    if not lists:
        yield ()
        return
    for x in lists[0]:
        for rest in product(lists[1:]):
            yield (x,) + rest


_TERMS = {}


def all_terms(maxsize):
    if maxsize not in _TERMS:
        out = []
        for s in range(1, maxsize + 1):
            out.extend(terms(s))
        _TERMS[maxsize] = out
    return _TERMS[maxsize]


def RULE(tier):
    n = 3 if tier == "quick" else 4
    return ("for each of %d data-object shapes (flat RawDom/RegDom/TymeDom/frozen IceRegDom, one and two levels of nesting, mixed) "
            "and each of JSON/CBOR/MessagePack: every field value that is a term of <= %d nodes over %d atoms, lists and str-keyed "
            "dicts (second field from a fixed small set); oracle: cls._fromX(obj._asX()) == obj, same class, type-strict deep "
            "equality of fields, and again on the same object after a list/dict field value was changed in place; plus, for the nested "
            "shapes, every sequence of <= %d objects from a pool whose nested field is absent (None), present, or present with None "
            "inside, and of rejected (truncated / trailing-garbage) inputs, handled one after the other in the same process (a result must not "
            "depend on what was converted or rejected before); every serialisation is also read twice, the first result edited in place in between. One case = (shape, format, field values)." % (len(SHAPES), n, len(ATOMS), 2 if tier == "quick" else 3))


def EXHAUSTIVE(tier):
    return True


def jobs(tier):
    n = 3 if tier == "quick" else 4
    nt = len(all_terms(n))
    step = 400
    return [(sh, a, min(a + step, nt), n) for sh in SHAPES for a in range(0, nt, step)] + \
           [("hist", sh, 2 if tier == "quick" else 3) for sh in sorted(POOLS)]


# objects of the nested shapes whose nested field is absent (None), present, or present with None inside: round-tripped one
# after the other in every order (conversion must not depend on what was converted before)
POOLS = {
    "Nest1": [lambda: Nest1(x=None, y=1), lambda: Nest1(x=FlatRaw(a="a", b=1), y=None), lambda: Nest1(x=FlatRaw(a=None, b=None), y=[0])],
    "Nest2": [lambda: Nest2(n=None, z=1), lambda: Nest2(n=Nest1(x=None, y=0), z=None),
              lambda: Nest2(n=Nest1(x=FlatRaw(a={"k": 1}, b="x"), y=0.5), z=[None])],
    "IceNest": [lambda: IceNest(x=None, y=1), lambda: IceNest(x=FlatIce(a="a", b=1), y=None), lambda: IceNest(x=FlatIce(a=None, b=None), y="é")],
    "RegNest": [lambda: RegNest(x=None, y=None), lambda: RegNest(x=FlatReg(a=1, b=None), y=None),
                lambda: RegNest(x=None, y=FlatTyme(a="t", b=0)), lambda: RegNest(x=FlatReg(a=[1], b=2), y=FlatTyme(a=None, b=None))],
}


BAD_INPUTS = [("_frommgpk", b"\x82\xa1x"), ("_frommgpk", b"\x81\xa1y\x01\xc1"), ("_fromcbor", b"\xa2ax"), ("_fromjson", '{"x": ')]


def check_hist(shape, seq):
    """round trips of POOLS[shape][i] for i in seq, in this process; an index i >= len(pool) stands for BAD_INPUTS[i - len(pool)]:
    a truncated / trailing-garbage serialisation handed to the deserialiser (it may raise or not - only what comes AFTER is judged)"""
    v = []
    pool = POOLS[shape]
    cls = type(pool[0]())
    for k, i in enumerate(seq):
        if i >= len(pool):
            de, raw = BAD_INPUTS[i - len(pool)]
            try:
                getattr(cls, de)(raw)
            except Exception:
                pass
            continue
        v = _roundtrip(shape, pool[i](), ":after-earlier-objects" if k else "")
        if v:
            break
    return v


def hist_pristine(shape, seqs):
    """every sequence judged in its own freshly forked copy of a PRISTINE interpreter (a new python process that has only
    imported hio and this module), so that no state left in hio by other cases or jobs can leak in: [(seq, viols)]"""
    import json
    import os
    import subprocess
    import sys
    env = dict(os.environ, PYTHONPATH="/verif", PYTHONWARNINGS="ignore", PYTHONHASHSEED="0")
    out = subprocess.run([sys.executable, "-m", "vf.checks.c28_doms", shape, json.dumps(seqs)], env=env, cwd="/verif",
                         capture_output=True, text=True, timeout=600)
    if out.returncode != 0:
        raise RuntimeError("pristine helper failed: %s" % out.stderr[-400:])
    return [(seq, [tuple(x) for x in viols]) for seq, viols in json.loads(out.stdout.strip().splitlines()[-1])]


def _pristine_main(argv):
    import json
    import os
    shape, seqs = argv[0], json.loads(argv[1])
    res = []
    for seq in seqs:
        r, w = os.pipe()
        pid = os.fork()
        if pid == 0:
            try:
                os.close(r)
                data = json.dumps(check_hist(shape, seq)).encode()
                os.write(w, data)
            finally:
                os._exit(0)
        os.close(w)
        buf = b""
        while True:
            chunk = os.read(r, 65536)
            if not chunk:
                break
            buf += chunk
        os.close(r)
        os.waitpid(pid, 0)
        res.append([seq, json.loads(buf.decode()) if buf else [["hist:helper-died:%s" % shape, "child died for %r" % (seq,)]]])
    print(json.dumps(res))


SECOND = [1, None, "x", [0], {"k": False}]


def build(shape, t, s):
    if shape == "FlatRaw":
        return FlatRaw(a=t, b=s)
    if shape == "FlatReg":
        return FlatReg(a=t, b=s)
    if shape == "FlatTyme":
        return FlatTyme(a=t, b=s)
    if shape == "FlatIce":
        return FlatIce(a=t, b=s)
    if shape == "Nest1":
        return Nest1(x=FlatRaw(a=t, b=s), y=t)
    if shape == "Nest2":
        return Nest2(n=Nest1(x=FlatRaw(a=s, b=t), y=s), z=t)
    if shape == "IceNest":
        return IceNest(x=FlatIce(a=t, b=s), y=s)
    if shape == "RegNest":
        return RegNest(x=FlatReg(a=t, b=s), y=FlatTyme(a=s, b=t))
    if shape == "NestE":
        return NestE(e=Empty(), y=t)
    if shape == "SubNest":
        return SubNest(x=FlatRaw(a=t, b=s), y=t, w=s)
    if shape == "Under":
        return Under(_id=t, v=s)
    if shape == "NestU":
        return NestU(u=Under(_id=s, v=t), y=t)
    if shape == "Hooked":
        return Hooked(a=t, b=s)
    if shape == "HookedSub":
        return HookedSub(a=s, b=t)
    if shape == "NestH":
        return NestH(h=Hooked(a=t, b=s), y=s)
    raise AssertionError(shape)


def strict_eq(a, b):
    if type(a) is not type(b):
        return False
    if isinstance(a, dict):
        return list(a.keys()) == list(b.keys()) and all(strict_eq(a[k], b[k]) for k in a)
    if isinstance(a, list):
        return len(a) == len(b) and all(strict_eq(x, y) for x, y in zip(a, b))
    if hasattr(a, "__dataclass_fields__"):
        return all(strict_eq(getattr(a, f.name), getattr(b, f.name)) for f in fields(a))
    return a == b


def check(shape, t, s):
    import copy
    t = copy.deepcopy(t)
    v = _roundtrip(shape, build(shape, t, s), "")
    if not v and isinstance(t, (list, dict)):
        # same object again after an in-place change of a field value: the second serialization must show it
        obj = build(shape, t, s)
        for fmt, ser, de in FORMATS:
            getattr(obj, ser)()
        if isinstance(t, list):
            t.append("more")
        else:
            t["more"] = 1
        v = _roundtrip(shape, obj, ":after-inplace-change")
    return v


def _roundtrip(shape, obj, phase):
    v = []
    for fmt, ser, de in FORMATS:
        try:
            raw = getattr(obj, ser)()
            back = getattr(type(obj), de)(raw)
            if type(back) is not type(obj):
                v.append(("%s:class:%s%s" % (fmt, shape, phase), "%s round trip of %r gave class %s" % (fmt, obj, type(back).__name__)))
                continue
            if not (back == obj):
                v.append(("%s:not-equal:%s%s" % (fmt, shape, phase), "%s round trip of %r gave %r" % (fmt, obj, back)))
                continue
            if not strict_eq(back, obj):
                v.append(("%s:type-drift:%s%s" % (fmt, shape, phase), "%s round trip of %r gave %r (types differ)" % (fmt, obj, back)))
                continue
            # the same serialisation read a second time, after the first result was edited in place, is the original again
            edited = False
            for f in fields(back):
                val = getattr(back, f.name)
                if isinstance(val, list):
                    val.append("edited")
                    edited = True
                elif isinstance(val, dict):
                    val["edited"] = 1
                    edited = True
            if edited:
                back2 = getattr(type(obj), de)(raw)
                if not (back2 == obj):
                    v.append(("%s:second-read-differs:%s%s" % (fmt, shape, phase), "%s: reading %r a second time, after the first result was "
                              "edited in place, gave %r, original %r" % (fmt, raw, back2, obj)))
        except Exception as ex:
            v.append(("%s:raises:%s:%s%s" % (fmt, type(ex).__name__, shape, phase), "%s round trip of %r raised %r" % (fmt, obj, ex)))
    return v


def run_job(job, tier, seed):
    acc = Acc(job)
    if job[0] == "hist":
        _, shape, depth = job
        k = len(POOLS[shape])
        seqs = [list(seq) for n in range(1, depth + 1) for seq in product([list(range(k))] * n)]
        seqs += [[k + b, g] for b in range(len(BAD_INPUTS)) for g in range(k)]          # a rejected input, then a good object
        seqs += [[g0, k + b, g] for b in range(len(BAD_INPUTS)) for g0 in range(k) for g in range(k)]
        for seq, viols in hist_pristine(shape, seqs):
            acc.case(["hist", shape, list(seq)], "ok" if not viols else viols[0][0], viols, sample=dict(shape=shape, sequence=list(seq)))
        acc.r.obs.add(hash(("hist", shape)))
        return acc.result()
    shape, a, b, n = job
    ts = all_terms(n)
    for i in range(a, b):
        for j, s in enumerate(SECOND):
            viols = check(shape, ts[i], s)
            if viols or (i % 397 == 5 and j == 0):
                acc.case([shape, i, j, n], "ok" if not viols else viols[0][0], viols, sample=dict(shape=shape, a=repr(ts[i]), b=repr(s)))
            else:
                acc.bulk(1, 1)
    acc.r.obs.add(hash(shape))
    return acc.result()


def replay(job, case):
    if case[0] == "hist":
        return hist_pristine(case[1], [list(case[2])])[0][1]
    shape, i, j, n = case
    return check(shape, all_terms(n)[i], SECOND[j])


if __name__ == "__main__":
    import sys
    _pristine_main(sys.argv[1:])
