"""C29 - Filer keeps what it creates and deletes inside its own directory; clear removes what it created (E3 in a sandbox).

Full product enumeration of configurations x relative names/bases x short operation histories against the real Filer whose
class-level directories are redirected into a sandbox under /dev/shm; oracle = recursive snapshot diff of the sandbox around
every step.  Histories use the constructor, reopen (also with a flipped temp flag), close, a direct remake() call, the
openFiler context manager and FilerDoer.enter/exit.
"""
import os
import re
import shutil

from .. import treeguard
from ..enum import Acc

treeguard()
from hio import hioing  # noqa: E402
from hio.base import filing  # noqa: E402

PID = "C29"
LEVEL = "exploration"
ASSUMPTIONS = [
    "the process runs as root on tmpfs (/dev/shm): permission-driven fallbacks to AltHeadDirPath never trigger by themselves; the "
    "alternate head is watched (anything created there is reported) but its fallback logic is not exercised",
    "HeadDirPath / AltHeadDirPath / TempHeadDir are redirected through a Filer subclass (class attributes only, no hio code changed); "
    "'own head directory' = HeadDirPath while the instance is persistent, the tempfile.mkdtemp directories the instance made while it "
    "is temp; when reopen(temp=..) flips the mode inside a history the region is taken per step from .temp before the step (for what "
    "the step deletes) and after it (for what it creates or, with clean, deletes); deleting an entry the instance itself created at "
    "an allowed place is never an escape",
    "'removes what it created' is read as: after a clearing step (close(clear=True), reopen(clear=True), leaving openFiler with clear "
    "or .temp, FilerDoer.exit with .temp) nothing is left at or below the path the instance had before the step (unless the reopen "
    "re-created exactly that path) and, for an instance that was temp, none of its mkdtemp directories is left; intermediate "
    "directories between a persistent head and .path (tail 'hio', base, dirname of name) may stay because persistent instances share "
    "them - they are only counted (coverage key leftover_intermediate_dirs_cases)",
    "'nothing outside its own path': a clearing step deletes only at or below the path held before the step (a clearing reopen also at "
    "or below the path it makes); an instance that was temp may delete anywhere inside its own mkdtemp directories (hio documents "
    "removing the trailing directory for temp); the harness plants a foreign file SIBLING next to every path the Filer opens so that "
    "removing the trailing directory of a shared directory is visible",
    "title clause 'temp resources are removed': after leaving openFiler / after FilerDoer.exit the resource at .path is gone when .temp "
    "is true at that moment; a persistent resource deleted there without clear is not an error (inside its own path)",
    "the same clean flag is passed to every reopen of a history (reopen does not remember it); perm/mode/fext stay at their defaults; "
    "FilerDoer.enter cannot pass clean, its cases use clean=False",
    "direct remake() calls are made on an instance built with name='main', base='', reopen=False, with the same temp/clean/filed/"
    "extensioned values as keyword arguments; a FilerError from remake is a correct answer when the sandbox is unchanged",
    "mkdtemp directory names are random: they are renamed T1, T2.. in order of creation in every observation and message",
    "snapshots identify a file by (inode, size, mtime_ns, mode) and a directory by its mode instead of reading content: an altered "
    "sentinel is one whose identity changed; the cases of one job share one sandbox directory: before every case everything the "
    "previous case left is removed and all pristine entries are compared with the snapshot taken right after building (any "
    "difference: the sandbox is rebuilt from nothing); replays always build a new sandbox",
]

NAMES = ["main", "a/b", "a.b", "x.text", ".hid", "../x", "a/../b", "../../x", ".."]
BASES = ["", "b", "b/..", "../b", "../..", ".."]
FLAGS = ("temp", "clean", "filed", "extensioned", "reuse", "clear")
STRICT_INTERMEDIATE = False      # True: persistent intermediate directories left behind by clear are violations too

SANDBOX_ROOT = ("/dev/shm" if os.path.isdir("/dev/shm") and os.access("/dev/shm", os.W_OK) else "/var/tmp") + "/vf_c29_%d"
# layout below the per-case top directory; the deepest escape possible with these names/bases is four levels above
# <head>/hio, i.e. S itself (and rmtree(dirname) of it), so 'outer' and the top directory always survive
S = os.path.join("outer", "S")
L2 = os.path.join(S, "l1", "l2")
HEAD, ALT, TMP = os.path.join(L2, "head"), os.path.join(L2, "alt"), os.path.join(L2, "tmp")
SIB = os.path.join(L2, "sib")                # absolute base / name of the direct remake() calls point here (outside head)
SENTINEL_DIRS = ["outer", os.path.join("outer", "sib"), S, os.path.join(S, "sib"), os.path.join(S, "l1"),
                 os.path.join(S, "l1", "sib"), L2, SIB, ALT, TMP]
FOREIGN = os.path.join(HEAD, "keep.txt")     # somebody else's file inside the head directory but not in the instance's path
SIBLING = "SIBLING"                          # somebody else's file planted next to the path the Filer opened
TEMPRE = re.compile(r"hio_[A-Za-z0-9_]+_test")

ROUND2 = [("reopen", {"reuse": False}), ("close", {"clear": True})]
# shape id -> short description; ids are stable (they are stored in counterexample cases)
SHAPE_DOC = {
    0: "init(reopen=True), close(clear)",
    1: "init, reopen(reuse), close(clear)",
    2: "shape 0 + reopen(), close(clear=True)",
    3: "shape 1 + reopen(), close(clear=True)",
    10: "new(name='main', base='', reopen=False), remake(name, base) twice",
    11: "new(..), remake(name, base=<absolute sibling directory>) twice",
    12: "new(..), remake(name=<absolute sibling directory>/name, base) twice",
    20: "init, reopen(temp=not temp, clear, reuse), close(clear=True)",
    21: "shape 20 + reopen(), close(clear=True)",
    30: "with openFiler(cls, name, base, temp, clear, reuse, clean, filed, extensioned): pass",
    31: "with openFiler(..) as f: f.reopen(temp=not temp, reuse)",
    32: "shape 30 + reopen(), close(clear=True)",
    33: "shape 31 + reopen(), close(clear=True)",
    34: "with openFiler(..): raise ValueError  (the body of the with statement fails: the exit must close and clear all the same)",
    40: "new(name, base, temp, reopen=False), FilerDoer(filer).enter(temp=t), .exit()   t = None/True/False from (reuse, clear)",
    41: "shape 40 + reopen(), close(clear=True)",
    42: "shape 40 with the filer closed (without clear) by somebody else between FilerDoer.enter and FilerDoer.exit",
    43: "init(reopen=True) - the filer is already open - then FilerDoer(filer).enter(temp=t), .exit()",
    50: "shape 0 with the primary head directory unusable (its parent is a file): the Filer falls back to its alternate head",
    51: "shape 1 with the primary head directory unusable",
    52: "shape 0 with RELATIVE class-level head directories, the working directory changed between init and close(clear=True)",
    53: "shape 1 with perm=0o600 (no execute bit on what the Filer makes): the second open must find its own path again",
}
BLOCKED = (50, 51)
QUICK_SHAPES = (0, 1, 10, 11, 12, 20, 30, 31, 34, 40, 42, 43, 50, 52, 53)
THOROUGH_SHAPES = (0, 1, 2, 3, 10, 11, 12, 20, 21, 30, 31, 32, 33, 34, 40, 41, 42, 43, 50, 51, 52, 53)
DOER_TEMP = {(0, 0): None, (0, 1): True, (1, 0): False}


def SHAPES(tier):
    return QUICK_SHAPES if tier == "quick" else THOROUGH_SHAPES


def valid(flags, shape):
    """flag combinations that are distinct inputs of a shape"""
    temp, clean, filed, extensioned, reuse, clear = [int(x) for x in flags]
    if shape in (10, 11, 12):
        return not reuse and not clear           # remake takes neither
    if shape in (40, 41, 42):
        return (reuse, clear) in DOER_TEMP and not clean
    if shape == 43:
        return (reuse, clear) in DOER_TEMP
    if shape == 52:
        return bool(clear) and not reuse         # the close is the clearing one
    return True


def plan(flags, shape):
    temp, clean, filed, extensioned, reuse, clear = [bool(x) for x in flags]
    if shape == 43:
        return [("init", {}), ("FilerDoer.enter", {"temp": DOER_TEMP[(int(reuse), int(clear))]}), ("FilerDoer.exit", {})]
    if shape == 52:
        return [("init", {}), ("chdir", {}), ("close", {"clear": True})]
    if shape == 53:
        shape = 1
    if shape in BLOCKED:
        shape -= 50
    if shape in (0, 1, 2, 3):
        steps = [("init", {})]
        if shape & 1:
            steps.append(("reopen", {"reuse": reuse}))
        steps.append(("close", {"clear": clear}))
        return steps + (ROUND2 if shape & 2 else [])
    if shape in (10, 11, 12):
        return [("new", {"plain": True}), ("remake", {"kind": shape - 10}), ("remake", {"kind": shape - 10})]
    if shape in (20, 21):
        steps = [("init", {}), ("reopen", {"temp": not temp, "clear": clear, "reuse": reuse}), ("close", {"clear": True})]
        return steps + (ROUND2 if shape == 21 else [])
    if shape == 34:
        return [("openFiler.enter", {}), ("openFiler.exit-raise", {})]
    if shape in (30, 31, 32, 33):
        steps = [("openFiler.enter", {})]
        if shape in (31, 33):
            steps.append(("reopen", {"temp": not temp, "reuse": reuse}))
        steps.append(("openFiler.exit", {}))
        return steps + (ROUND2 if shape in (32, 33) else [])
    if shape in (40, 41, 42):
        steps = [("new", {}), ("FilerDoer.enter", {"temp": DOER_TEMP[(int(reuse), int(clear))]})]
        if shape == 42:
            steps.append(("close", {"clear": False}))
        steps.append(("FilerDoer.exit", {}))
        return steps + (ROUND2 if shape == 41 else [])
    raise ValueError("unknown shape %r" % (shape,))


def RULE(tier):
    shapes = SHAPES(tier)
    return ("full product: temp x clean x filed x extensioned x reuse x clear in {False,True}^6 x %d names %r x %d bases %r x history "
            "shapes {%s} (remake shapes only with reuse=clear=False, FilerDoer shapes with clean=False and (reuse, clear) selecting "
            "enter(temp=None/True/False)); absolute base/name of the remake shapes point at the sentinel directory l2/sib outside head; "
            "every case runs the real Filer in a "
            "pristine sandbox top/outer/S/l1/l2/{head,alt,tmp} with sentinel files in every ancestor and sibling directory, a foreign "
            "file inside head and a foreign file SIBLING planted next to every path the Filer opens; a recursive snapshot before and "
            "after every step gives the sets of created and deleted entries: each "
            "must lie inside head while the instance is persistent, inside one of the instance's mkdtemp directories while it is temp "
            "(a reopen that flips temp may delete in the old region and create in the new one); a step that clears (close(clear=True), "
            "reopen(clear=True), openFiler exit with clear or .temp, FilerDoer.exit with .temp) deletes only at or "
            "below the path held before it (temp: inside its mkdtemp directories), leaves nothing at that path and no mkdtemp directory "
            "of the instance; after openFiler exit / FilerDoer.exit with .temp true the resource at .path is gone; a direct remake() "
            "either raises FilerError and changes nothing or creates/deletes only inside head (inside a new mkdtemp directory when temp); "
            "every sentinel keeps existing unaltered. Constructor rejections (FilerError, for FilerDoer raised by enter) are "
            "counted and only checked for leaving the sandbox unchanged. Cases are "
            "distinct by construction." % (len(NAMES), NAMES, len(BASES), BASES,
                                           " ; ".join("%d: %s" % (k, SHAPE_DOC[k]) for k in shapes)))


def EXHAUSTIVE(tier):
    return True


def jobs(tier):
    return [("C29", ni, bi) for ni in range(len(NAMES)) for bi in range(len(BASES))]


# ----------------------------------------------------------------------------------------------------------------------
# sandbox

def build(top):
    for d in SENTINEL_DIRS + [HEAD]:
        os.makedirs(os.path.join(top, d), exist_ok=True)
    for d in SENTINEL_DIRS:
        with open(os.path.join(top, d, "SENTINEL"), "w") as f:
            f.write("sentinel " + d)
    with open(os.path.join(top, FOREIGN), "w") as f:
        f.write("foreign")


def fsig(st):
    """identity of a file: rewriting, replacing, truncating or chmod-ing it changes the value"""
    return "f:%d:%d:%d:%o" % (st.st_ino, st.st_size, st.st_mtime_ns, st.st_mode & 0o7777)


def snapshot(top):
    """relative path -> 'd<mode>' | 'f:<inode>:<size>:<mtime_ns>:<mode>' | 'l' for everything below top"""
    snap = {}
    stack = [("", top)]
    while stack:
        rel, full = stack.pop()
        with os.scandir(full) as it:
            for e in it:
                p = rel + e.name
                if e.is_symlink():
                    snap[p] = "l"
                elif e.is_dir(follow_symlinks=False):
                    snap[p] = "d%o" % (e.stat(follow_symlinks=False).st_mode & 0o7777)
                    stack.append((p + os.sep, e.path))
                else:
                    try:
                        snap[p] = fsig(e.stat(follow_symlinks=False))
                    except OSError:
                        snap[p] = "f:?"
    return snap


PRISTINE = {}       # top directory -> snapshot right after build()


def prepare(top):
    """the sandbox at top in its pristine state -> its snapshot.  A sandbox left by an earlier case of the same job is reused
    when every pristine entry is still identical (inode, size, mtime, mode): what the earlier case left is removed; else rebuilt."""
    pristine = PRISTINE.get(top)
    if pristine is not None and os.path.isdir(top):
        try:
            snap = snapshot(top)
            if all(snap.get(p) == v for p, v in pristine.items()):
                for p in sorted(snap):
                    if p not in pristine and (os.path.dirname(p) in pristine or not os.path.dirname(p)):
                        if snap[p].startswith("d"):
                            shutil.rmtree(os.path.join(top, p))
                        else:
                            os.unlink(os.path.join(top, p))
                return dict(pristine)
        except OSError:
            pass
    shutil.rmtree(top, ignore_errors=True)
    build(top)
    for d in SENTINEL_DIRS:
        with open(os.path.join(top, d, "SENTINEL")) as f:
            assert f.read() == "sentinel " + d
    PRISTINE[top] = snapshot(top)
    return dict(PRISTINE[top])


def inside(path, root):
    """path strictly below root (both relative, normalised)"""
    return path.startswith(root + os.sep)


def under(path, root):
    """path is root or below it"""
    return root is not None and (path == root or inside(path, root))


def region(path):
    """where an entry outside the allowed directory lies"""
    if inside(path, TMP):
        return "in-tempheaddir"         # inside TempHeadDir but not in a mkdtemp directory of the instance
    if inside(path, HEAD):
        return "in-head"                # only an escape for temp instances
    if inside(path, ALT):
        return "in-althead"
    return "above-head"                 # an ancestor or sibling of head/alt/tmp, or one of these directories itself


def make_class(top, blocked=False, relative=False):
    """blocked: the primary head lies below a regular FILE (a sentinel), so creating it fails with OSError and the Filer
    falls back to its alternate head; relative: the three class-level directories are relative paths (cwd == top)"""
    base = "" if relative else top

    class SandboxFiler(filing.Filer):
        HeadDirPath = os.path.join(base, L2, "SENTINEL", "head") if blocked else os.path.join(base, HEAD)
        AltHeadDirPath = os.path.join(base, ALT)
        TempHeadDir = os.path.join(base, TMP)
    return SandboxFiler


def modename(t):
    return "temp" if t else "persistent"


# ----------------------------------------------------------------------------------------------------------------------

OPENERS = ("init", "new", "openFiler.enter", "FilerDoer.enter")        # a FilerError here rejects the configuration
PLANT_AFTER = ("init", "reopen", "openFiler.enter", "FilerDoer.enter", "remake")
EXITS = {"openFiler.exit": "openFiler", "openFiler.exit-raise": "openFiler", "FilerDoer.exit": "FilerDoer"}


def run_case(top, name, base, flags, shape):
    """one history in a pristine sandbox -> (status, violations, observation, stats); the caller removes top afterwards"""
    temp, clean, filed, extensioned, reuse, clear = [bool(x) for x in flags]
    steps = plan(flags, shape)
    before = prepare(top)
    cls = make_class(top, blocked=(shape in BLOCKED), relative=(shape == 52))
    OWNHEAD = ALT if shape in BLOCKED else HEAD      # the head directory this instance works in
    cwd0 = os.getcwd()
    if shape == 52:
        os.chdir(top)
    viols, obs, stats = [], [], {}
    tempnames = {}          # random mkdtemp basename -> T<k>
    mine = set()            # mkdtemp directories made while this instance worked (relative paths)
    legit = set()           # entries the instance created at an allowed place
    created_total = set()
    filer = cm = doer = None
    tofree = []
    remade = None           # path returned by the latest direct remake()
    sentinels = [os.path.join(d, "SENTINEL") for d in SENTINEL_DIRS]
    conf = "name=%r base=%r %s" % (name, base, " ".join("%s=%s" % (k, v) for k, v in zip(FLAGS, (temp, clean, filed, extensioned, reuse, clear))))

    def norm(p):
        return TEMPRE.sub(lambda m: tempnames.get(m.group(0), m.group(0)), p)

    def rel(p):
        if not p:
            return None
        if not os.path.isabs(p):      # (a Filer that keeps a relative path: it meant the directory it was made in)
            p = os.path.join(top, p)
        return os.path.relpath(p, top)

    def in_mode(p, t):
        if t:
            return any(under(p, m) for m in mine)
        return inside(p, OWNHEAD)

    try:
        done = []
        opened_any = False
        for op, args in steps:
            if op == "remake":
                oldpath, tb = remade, temp
            else:
                oldpath = rel(filer.path) if filer is not None else None
                tb = bool(filer.temp) if filer is not None else None
            label = "%s(%s)" % (op, ", ".join("%s=%s" % (k, v) for k, v in args.items() if k not in ("plain", "kind")))
            err = None
            try:
                if op == "init":
                    filer = cls(name=name, base=base, temp=temp, reopen=True, clear=clear, reuse=reuse, clean=clean,
                                filed=filed, extensioned=extensioned, **({"perm": 0o600} if shape == 53 else {}))
                elif op == "new":
                    if args.get("plain"):
                        filer = cls(name="main", base="", temp=temp, reopen=False, filed=filed, extensioned=extensioned)
                    else:
                        filer = cls(name=name, base=base, temp=temp, reopen=False, filed=filed, extensioned=extensioned)
                elif op == "remake":
                    sib = os.path.join(top, SIB)
                    rname = os.path.join(sib, name) if args["kind"] == 2 else name
                    rbase = sib if args["kind"] == 1 else base
                    label = "remake(%s)" % ("name, base", "name, base=<top>/%s" % SIB, "name=<top>/%s/name, base" % SIB)[args["kind"]]
                    rpath, rfile = filer.remake(name=rname, base=rbase, temp=temp, clean=clean, filed=filed, extensioned=extensioned)
                    remade = rel(rpath)
                    if rfile is not None:
                        tofree.append(rfile)
                        rfile.close()
                elif op == "chdir":
                    os.chdir(os.path.join(top, "outer", "sib"))
                elif op == "reopen":
                    filer.reopen(clean=clean, **args)
                elif op == "close":
                    filer.close(clear=args["clear"])
                elif op == "openFiler.enter":
                    cm = filing.openFiler(cls=cls, name=name, base=base, temp=temp, reopen=True, clear=clear, reuse=reuse, clean=clean,
                                          filed=filed, extensioned=extensioned)
                    filer = cm.__enter__()
                elif op == "openFiler.exit":
                    cm.__exit__(None, None, None)
                elif op == "openFiler.exit-raise":
                    boom = ValueError("the body of the with statement failed")
                    try:
                        cm.__exit__(ValueError, boom, None)       # hands the body's exception to the context manager
                    except ValueError:
                        pass
                elif op == "FilerDoer.enter":
                    doer = filing.FilerDoer(filer=filer)
                    doer.enter(temp=args["temp"])
                elif op == "FilerDoer.exit":
                    doer.exit()
                else:
                    raise ValueError(op)
            except hioing.FilerError as ex:
                mode = modename(temp)
                if op in OPENERS and not opened_any:     # rejected configuration: not part of the domain; it must not leave anything behind though
                    after = snapshot(top)
                    diff = sorted(set(after) ^ set(before))
                    if diff:
                        viols.append(("rejected-but-changed:%s" % mode, "%s: %s raised FilerError yet created/deleted %s"
                                      % (conf, "constructor" if op != "FilerDoer.enter" else op, ", ".join(TEMPRE.sub("T1", p) for p in diff[:4]))))
                    return "rejected", viols, ("rejected", len(diff)), stats
                if op == "remake":                       # a correct answer as long as nothing happened
                    after = snapshot(top)
                    diff = sorted(set(after) ^ set(before))
                    if diff:
                        viols.append(("rejected-but-changed:remake:%s" % mode, "%s, step %s after %s: raised FilerError yet created/deleted %s"
                                      % (conf, label, "+".join(done) or "nothing", ", ".join(TEMPRE.sub("T1", p) for p in diff[:4]))))
                    stats["remake_rejected"] = stats.get("remake_rejected", 0) + 1
                    obs.append((label, "FilerError", len(diff)))
                    return "ran", viols, tuple(obs), stats
                err = ex
            except Exception as ex:   # the statement is about where the Filer works, not about raising: recorded, still diffed
                err = ex
            done.append(op)
            if op not in ("new",):
                opened_any = True
            after = snapshot(top)
            created = sorted(p for p in after if p not in before)
            deleted = sorted(p for p in before if p not in after)
            changed = sorted(p for p in after if p in before and after[p] != before[p])
            # label new mkdtemp directories
            fresh = set()
            for p in created:
                if os.path.dirname(p) == TMP and TEMPRE.fullmatch(os.path.basename(p)) and after[p].startswith("d"):
                    tempnames.setdefault(os.path.basename(p), "T%d" % (len(tempnames) + 1))
                    mine.add(p)
                    fresh.add(p)
            created_total.update(created)
            if op == "remake":
                newpath, ta = remade, temp
            else:
                newpath = rel(filer.path) if filer is not None else None
                ta = bool(filer.temp) if filer is not None else bool(temp)
            if tb is None:
                tb = ta
            step = "%s after %s" % (label, "+".join(done[:-1]) or "nothing")
            where = "%s, step %s, path %s" % (conf, step, norm(newpath or "None"))
            if err is not None:
                stats["raised_" + type(err).__name__] = stats.get("raised_" + type(err).__name__, 0) + 1

            # -- a temp instance lives below the class's TempHeadDir
            if ta and err is None and op in PLANT_AFTER and newpath is not None and not inside(newpath, TMP):
                viols.append(("temp-outside-tempheaddir", "%s: the temp resource is not below TempHeadDir" % where))
                stray = filer.path if filer is not None else None
                if stray and os.path.isabs(stray) and not stray.startswith(top + os.sep) and TEMPRE.search(stray):
                    m = TEMPRE.search(stray)
                    shutil.rmtree(stray[:m.end()], ignore_errors=True)      # do not litter the machine's temp directory
            # -- clause 1: everything created or deleted lies inside the own head directory / the own temp directory
            badc = [p for p in created if not in_mode(p, ta)]
            badd = [p for p in deleted if not (in_mode(p, tb) or in_mode(p, ta) or p in legit)]
            for what, bad, t in (("create", badc, ta), ("delete", badd, tb)):
                if bad:
                    # one key per event: classified by its shallowest entry (an rmtree of a big directory is one event)
                    topmost = min(bad, key=lambda p: (p.count(os.sep), p))
                    viols.append(("escape:%s:%s:%s" % (what, modename(t), region(topmost)),
                                  "%s: %sd outside its own %s: %s" % (where, what, "mkdtemp directory" if t else "head directory",
                                                                       ", ".join(norm(p) for p in bad[:4]) + (" .. %d entries" % len(bad) if len(bad) > 4 else ""))))
            legit.update(p for p in created if in_mode(p, ta))
            # -- sentinels
            lost = sorted(p for p in sentinels if p in before and after.get(p) != before[p])
            if lost:
                viols.append(("sentinel-destroyed:%s:%s" % (op, modename(tb)), "%s: sentinel files gone or altered: %s" % (where, ", ".join(lost[:4]))))
            if changed and not lost:
                foreign = [p for p in changed if not (inside(p, OWNHEAD) or any(inside(p, t) for t in mine))]
                if foreign:
                    viols.append(("foreign-altered:%s:%s" % (op, modename(tb)), "%s: entries altered: %s" % (where, ", ".join(norm(p) for p in foreign[:4]))))
            # -- clause 2: steps that clear
            clears = ((op == "close" and args["clear"]) or (op == "reopen" and args.get("clear"))
                      or (op.startswith("openFiler.exit") and (tb or clear)) or (op == "FilerDoer.exit" and tb))
            if clears:
                own = oldpath
                outside = [p for p in deleted if not (under(p, own) or (op == "reopen" and under(p, newpath))
                                                      or (tb and any(under(p, t) for t in mine)))]
                if outside:
                    viols.append(("clear-deletes-outside-own-path:%s:%s" % (modename(tb), "filed" if filed else "dir"),
                                  "%s: %s with own path %s deleted %s" % (where, label, norm(own or "None"), ", ".join(norm(p) for p in outside[:4]))))
                if own is not None and any(under(p, own) for p in after):
                    if op == "reopen" and err is None and newpath == own:
                        pass            # the reopen made exactly the same path again
                    elif op in EXITS and tb:
                        viols.append(("temp-left-behind:%s" % EXITS[op], "%s: .temp is True after %s yet the temp resource %s is still there"
                                      % (where, label, norm(own))))
                    else:
                        viols.append(("clear-leaves:path:%s" % modename(tb), "%s: %s left %s" % (where, label, norm(own))))
                if tb:
                    live = fresh if (op == "reopen" and ta) else set()      # the directory of the resource this reopen just opened
                    left = sorted((t for t in mine if t in after and t not in live), key=lambda t: int(tempnames[os.path.basename(t)][1:]))
                    latest = "T%d" % len(tempnames)
                    for t in left:
                        if tempnames[os.path.basename(t)] == latest:
                            viols.append(("clear-leaves:temp-root", "%s: %s left the instance's mkdtemp directory %s holding %s"
                                          % (where, label, norm(t), [norm(p) for p in sorted(after) if inside(p, t)][:4])))
                        else:
                            viols.append(("clear-leaves:earlier-temp-root", "%s: the mkdtemp directory %s of an earlier (re)open of the same "
                                          "instance is still there" % (where, norm(t))))
                else:
                    rest = sorted(p for p in created_total if p in after and inside(p, OWNHEAD))
                    if rest:
                        stats["leftover_intermediate_dirs_cases"] = 1
                        if STRICT_INTERMEDIATE:
                            viols.append(("clear-leaves:intermediate:persistent", "%s: %s left %s" % (where, label, ", ".join(rest[:4]))))
            obs.append((label, tuple(norm(p) for p in created), tuple(norm(p) for p in deleted),
                        type(err).__name__ if err is not None else None))
            # -- somebody else's file next to the path just opened (not attributed to the Filer: added to the snapshot by hand)
            if err is None and op in PLANT_AFTER and newpath is not None:
                d = os.path.dirname(newpath)
                sp = os.path.join(d, SIBLING)
                if under(d, "outer") and after.get(d, "").startswith("d") and sp not in after and sp != newpath:
                    try:
                        with open(os.path.join(top, sp), "w") as f:
                            f.write("sibling")
                        after[sp] = fsig(os.lstat(os.path.join(top, sp)))
                    except OSError:        # the directory is not what the snapshot says (e.g. replaced meanwhile): nothing planted
                        after.pop(sp, None)
            before = after
            if err is not None:
                break
        return "ran", viols, tuple(obs), stats
    finally:
        os.chdir(cwd0)
        try:
            if filer is not None and getattr(filer, "file", None):
                filer.file.close()
            for f in tofree:
                f.close()
        except Exception:
            pass


def cases(tier):
    for bits in range(64):
        flags = [(bits >> (5 - i)) & 1 for i in range(6)]
        for shape in SHAPES(tier):
            if valid(flags, shape):
                yield flags + [shape]


def run_job(job, tier, seed):
    _, ni, bi = job
    acc = Acc(job)
    root = SANDBOX_ROOT % os.getpid()
    top = os.path.join(root, "j%d_%d" % (ni, bi))
    try:
        os.makedirs(root, exist_ok=True)
        for case in cases(tier):
            status, viols, obs, stats = run_case(top, NAMES[ni], BASES[bi], case[:6], case[6])
            acc.case(case, obs, (), sample=dict(name=NAMES[ni], base=BASES[bi], flags=dict(zip(FLAGS, case[:6])), shape=case[6],
                                                   steps=[list(map(str, o)) for o in obs][:5] if status == "ran" else obs))
            for key, msg in viols:      # smallest counterexample = plainest name/base, fewest flags set, shortest history
                acc.r.add_violation(key, msg, job, case, ni + bi + sum(case[:6]) + THOROUGH_SHAPES.index(case[6]))
            acc.extra(**{"constructor_rejected" if status == "rejected" else "cases_run": 1})
            acc.extra(**stats)
    finally:
        PRISTINE.pop(top, None)
        shutil.rmtree(root, ignore_errors=True)
    return acc.result()


def replay(job, case):
    ni, bi = int(job[1]), int(job[2])
    root = SANDBOX_ROOT % os.getpid() + "_replay"
    top = os.path.join(root, "c")
    try:
        PRISTINE.pop(top, None)         # always a newly built sandbox
        os.makedirs(root, exist_ok=True)
        return run_case(top, NAMES[ni], BASES[bi], [int(x) for x in case[:6]], int(case[6]))[1]
    finally:
        PRISTINE.pop(top, None)
        shutil.rmtree(root, ignore_errors=True)
