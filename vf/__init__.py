"""vf - bounded exhaustive exploration of the real hio code (see /verif/DESIGN.md)."""
import os
import sys

REPO_SRC = os.environ.get("VF_REPO_SRC", "/repo/src")
VERIF = os.path.dirname(os.path.dirname(os.path.abspath(__file__)))


def treeguard():
    """Put the working tree first on sys.path and make sure hio comes from it.

    The pinned test-suite imports the site-packages hio (0.6.10); every check
    must run the tree (/repo/src).  Exit code 2 == "check broken", never a verdict.
    """
    if REPO_SRC in sys.path:
        sys.path.remove(REPO_SRC)
    sys.path.insert(0, REPO_SRC)
    for name in [m for m in sys.modules if m == "hio" or m.startswith("hio.")]:
        f = getattr(sys.modules[name], "__file__", "") or ""
        if not f.startswith(REPO_SRC):
            del sys.modules[name]
    import hio
    if not os.path.abspath(hio.__file__).startswith(os.path.abspath(REPO_SRC)):
        sys.stdout.write("BROKEN: hio imported from %s, not from %s\n" % (hio.__file__, REPO_SRC))
        sys.exit(2)
    try:
        import logging
        from hio.help import ogler
        ogler.level = logging.CRITICAL
        ogler.resetLevel(level=logging.CRITICAL, globally=True) if hasattr(ogler, "resetLevel") else None
        logging.getLogger("hio").setLevel(logging.CRITICAL + 1)
        logging.disable(logging.CRITICAL)
    except Exception:
        pass
    return hio
