"""C14 - HTTP requests built by the client are recovered exactly by the server (E3 product enumeration)."""
import json
from types import SimpleNamespace
from urllib.parse import parse_qsl, unquote

from .. import treeguard
from ..enum import Acc

treeguard()
from hio.core import http  # noqa: E402
from hio.core.http import clienting, serving  # noqa: E402

PID = "C14"
LEVEL = "exploration"
ASSUMPTIONS = [
    "GET requests carry no body by documented design: the expected body for GET is empty",
    "header values are legal field values (no leading/trailing blanks, no CR/LF); header names are tokens",
    "for form fields only the body bytes are compared (the statement's wording); JSON data must additionally load back equal",
    "the client side is Requester.build() directly and, for a subset, http.Client.request()/service() over FakeNet",
]
METHODS = ["GET", "HEAD", "PUT", "PATCH", "POST", "DELETE", "OPTIONS", "TRACE", "CONNECT"]
PATHS = ["/", "/a", "/a b", "/é", "/a%41", "/x;y", "/a+b"]
QATOMS = ["a", "a b", "ä", "a&b", "a=b", "#", "+", "%41", ";", ""]
HEADERS = [("X-A", "1"), ("x-b", "v w"), ("X-C", "é"), ("X-D", "a,b"), ("Accept", "text/x: y"), ("X-E", "")]   # last: an empty value is a legal field value
BODIES = [("raw", b""), ("raw", b"abc"), ("raw", bytes(range(256))), ("raw", b"\r\n\r\n"),
          ("data", {}), ("data", {"a": 1}), ("data", {"ä": [1, 2]}),
          ("fargs", {"a": "b"}), ("fargs", {"a b": "c&d"}),
          ("str", "h\u00e9\u00ff")]      # a str body: documented to be sent as iso-8859-1 (RFC 2616 3.7.1 default charset)


def RULE(tier):
    return ("product enumeration: 9 methods x 7 paths x query-argument dicts with %s entries over 10 key/value atoms (blank, unicode, "
            "&, =, #, +, %%41, ;, empty) x %s of 6 header fields (one with an empty value) x 10 bodies (raw incl. all 256 byte values, a latin-1 str, JSON data, form fields) x "
            "explicit Content-Length or not; built by the real Requester (and http.Client for a subset), parsed by the real Requestant "
            "and Server.buildEnviron; method, path, query arguments (reference urlencoded reader), header values and body bytes must "
            "be recovered; and the same for the SECOND request of a reused Requester (3 earlier requests: form fields, JSON data, raw body "
            "with headers and query) over all 10 bodies x 2 query dicts x 2 header sets." % (("<= 1", "<= 1") if tier == "quick" else ("<= 2", "<= 2")))


def EXHAUSTIVE(tier):
    return True


def jobs(tier):
    return [("C14", m, pi) for m in METHODS for pi in range(len(PATHS))]


def qarg_sets(tier):
    out = [{}]
    for k in QATOMS:
        for v in QATOMS:
            out.append({k: v})
    if tier != "quick":
        for k1, v1, k2, v2 in [("a", "x", "a b", "y"), ("ä", "1", "a", "ä"), ("a&b", "c", "d", "e=f"), ("#", "+", "+", "#"),
                               ("%41", ";", ";", "%41"), ("", "a", "a", ""), ("a", "1", "b", "2"), ("a=b", "a&b", "a b", "ä")]:
            out.append({k1: v1, k2: v2})
    return out


def header_sets(tier):
    out = [[]] + [[h] for h in HEADERS]
    if tier != "quick":
        out += [[HEADERS[0], HEADERS[2]], [HEADERS[1], HEADERS[4]], [HEADERS[3], HEADERS[0]]]
    return out


_SERVER = []


def server():
    if not _SERVER:
        _SERVER.append(http.Server(port=6101))
    return _SERVER[0]


def cls_of(s):
    if s == "":
        return "empty"
    for ch, name in ((" ", "blank"), ("&", "amp"), ("=", "eq"), ("#", "hash"), ("+", "plus"), ("%", "percent"), (";", "semi")):
        if ch in s:
            return name
    if any(ord(c) > 127 for c in s):
        return "nonascii"
    return "plain"


PATHQUERIES = ["/s?q=hello+world", "/s?a=1&b=x%2By", "/s?e=", "/s?k=a%20b+c&k2=%C3%A9", "/s?next=%2Fa%3Fb%3D1"]     # the query written inside the path


def check_pathquery(method, pq):
    """a request whose query is part of the path string: the server recovers the arguments the query string stands for"""
    path, _, query = pq.partition("?")
    want = dict(parse_qsl(query, keep_blank_values=True, encoding="utf-8"))
    try:
        msg = clienting.Requester(hostname="127.0.0.1", port=6101, method=method, path=pq).build()
        rt = serving.Requestant(msg=bytearray(msg), remoter=SimpleNamespace(tymeout=1.0, ca=("127.0.0.1", 5)))
        for _ in range(4):
            if rt.parser is None:
                break
            rt.parse()
        env = server().buildEnviron(rt)
    except Exception as ex:
        return [("path-query:raises:%s" % type(ex).__name__, "%s %r raised %r" % (method, pq, ex))]
    got = dict(parse_qsl(env["QUERY_STRING"], keep_blank_values=True, encoding="utf-8"))
    v = []
    if got != want:
        v.append(("path-query:arguments", "%s %r went out as %r: server recovers %r, the query stands for %r" % (method, pq, msg.split(b"\r\n")[0], got, want)))
    if unquote(env["PATH_INFO"]) != path:
        v.append(("path-query:path", "%s %r: PATH_INFO %r" % (method, pq, env["PATH_INFO"])))
    return v


PRIORS = [dict(method="POST", path="/prior", qargs={"p": "1"}, headers={"X-Prior": "p"}, fargs={"f": "g h"}),
          dict(method="PUT", path="/prior", qargs={}, headers={}, data={"prior": [1]}),
          dict(method="POST", path="/prior", qargs={"p": "q r"}, headers={"X-Prior": "p", "Content-Type": "text/x"}, body=b"prior-body")]
SEQ_QARGS = [{}, {"a": "a b"}]
SEQ_HEADERS = [[], [("X-A", "1")]]


def check(method, path, qargs, headers, bkind, bval, explicit_cl, via_client=False, prior=None, again=False):
    v = []
    kw = dict(method=method, path=path, qargs=dict(qargs), headers=dict(headers))
    if bkind in ("raw", "str"):
        kw["body"] = bval
    elif bkind == "data":
        kw["data"] = bval
    else:
        kw["fargs"] = dict(bval)
    try:
        if via_client:
            msg = build_via_client(kw)
        elif again:                 # the very same request is built a second time (a re-send: rebuild() with nothing but the body source)
            rq = clienting.Requester(hostname="127.0.0.1", port=6101, **kw)
            rq.build()
            # (reinit keeps method, path, query and headers and deliberately drops body / data / fargs: those are given again)
            msg = rq.rebuild(**{k: v for k, v in kw.items() if k in ("body", "data", "fargs")})
        elif prior is not None:     # the Requester built another request before (as http.Client reuses its requester)
            rq = clienting.Requester(hostname="127.0.0.1", port=6101, **PRIORS[prior])
            rq.build()
            msg = rq.rebuild(**kw)
        else:
            rq = clienting.Requester(hostname="127.0.0.1", port=6101, **kw)
            if explicit_cl:
                probe = rq.build()
                blen = len(probe.split(b"\r\n\r\n", 1)[1]) if b"\r\n\r\n" in probe else 0
                kw2 = dict(kw)
                kw2["headers"] = dict(headers)
                kw2["headers"]["Content-Length"] = str(blen)
                rq = clienting.Requester(hostname="127.0.0.1", port=6101, **kw2)
            msg = rq.build()
    except Exception as ex:
        qk = sorted(set(cls_of(k) for k in qargs)) or ["none"]
        return [("build-raises:%s:qkey-%s" % (type(ex).__name__, "+".join(qk)), "building %r raised %r" % (kw, ex))]
    wire_body = msg.split(b"\r\n\r\n", 1)[1] if b"\r\n\r\n" in msg else b""
    buf = bytearray(msg)
    rt = serving.Requestant(msg=buf, remoter=SimpleNamespace(tymeout=1.0, ca=("127.0.0.1", 5)))
    try:
        for _ in range(4):
            if rt.parser is None:
                break
            rt.parse()
    except Exception as ex:
        return [("parse-raises:%s" % type(ex).__name__, "parsing %r raised %r" % (msg[:120], ex))]
    kc = sorted(set(cls_of(k) for k in qargs) - {"plain"})
    vc = sorted(set(cls_of(x) for x in qargs.values()) - {"plain"})
    ctx = ("qkey-" + "+".join(kc)) if kc else ("qvalue-" + "+".join(vc)) if vc else "q-plain"
    if rt.parser is not None or rt.errored:
        return [("not-parsed:%s" % ctx, "request %r: ended=%r errored=%r error=%r" % (msg[:100], rt.ended, rt.errored, rt.error))]
    env = server().buildEnviron(rt)
    if rt.method != method or env["REQUEST_METHOD"] != method:
        v.append(("method", "method %r recovered as %r / %r" % (method, rt.method, env["REQUEST_METHOD"])))
    if rt.path != path or unquote(env["PATH_INFO"]) != path:
        v.append(("path:%s" % cls_of(path[1:]), "path %r recovered as %r / PATH_INFO %r" % (path, rt.path, env["PATH_INFO"])))
    want = {k: str(x) for k, x in qargs.items()}
    got = dict(parse_qsl(env["QUERY_STRING"], keep_blank_values=True, strict_parsing=False, encoding="utf-8"))
    if got != want or rt.query != env["QUERY_STRING"]:
        v.append(("query:%s" % ctx, "qargs %r sent as %r recovered as %r" % (qargs, env["QUERY_STRING"], got)))
    for name, val in headers:
        g1 = rt.headers.get(name.lower())
        g2 = env.get("HTTP_" + name.upper().replace("-", "_"))
        if g1 != val or g2 != val:
            v.append(("header:%s" % cls_of(val), "header %s: %r recovered as %r / %r" % (name, val, g1, g2)))
    if method == "GET":
        wantbody = b""
    elif bkind == "raw":
        wantbody = bval
    elif bkind == "str":
        wantbody = bval.encode("iso-8859-1")
    else:
        wantbody = wire_body
    gotbody = bytes(rt.body)
    envbody = env["wsgi.input"].read()
    if gotbody != wantbody or envbody != wantbody:
        v.append(("body:%s" % bkind, "%s body %r recovered as %r / %r" % (bkind, wantbody[:40], gotbody[:40], envbody[:40])))
    elif bkind == "data" and method != "GET":
        try:
            if json.loads(gotbody.decode("utf-8")) != bval:
                v.append(("body:data-content", "data %r arrived as %r" % (bval, gotbody)))
        except ValueError:
            v.append(("body:data-content", "data %r arrived as %r" % (bval, gotbody)))
    if buf:
        v.append(("leftover", "unconsumed bytes %r after request" % bytes(buf)[:30]))
    # the same connection's next request must be recovered on its own terms (nothing inherited from this one)
    nxt = b"GET /next?z=1 HTTP/1.1\r\nHost: h\r\nX-Next: n\r\n\r\n"
    if not v and rt.persisted:
        rt.makeParser()
        buf.extend(nxt)
        try:
            for _ in range(4):
                if rt.parser is None:
                    break
                rt.parse()
            env2 = server().buildEnviron(rt)
            got2 = (rt.method, rt.path, rt.query, tuple(rt.headers.items()), bytes(rt.body), tuple(sorted((k, str(x)) for k, x in env2.items() if k.startswith("HTTP_") or k.startswith("CONTENT"))))
        except Exception as ex:
            got2 = ("raises", type(ex).__name__)
        if got2 != fresh_next():
            v.append(("next-request-inherits:%s" % bkind, "after %r the next request on the connection is recovered as %r, alone it is %r" % (msg[:80], got2, fresh_next())))
    return v


_FRESH = []


def fresh_next():
    if not _FRESH:
        nxt = b"GET /next?z=1 HTTP/1.1\r\nHost: h\r\nX-Next: n\r\n\r\n"
        buf = bytearray(nxt)
        rt = serving.Requestant(msg=buf, remoter=SimpleNamespace(tymeout=1.0, ca=("127.0.0.1", 5)))
        for _ in range(4):
            if rt.parser is None:
                break
            rt.parse()
        env2 = server().buildEnviron(rt)
        _FRESH.append((rt.method, rt.path, rt.query, tuple(rt.headers.items()), bytes(rt.body), tuple(sorted((k, str(x)) for k, x in env2.items() if k.startswith("HTTP_") or k.startswith("CONTENT")))))
    return _FRESH[0]


def build_via_client(kw):
    from ..env import fakenet
    net = fakenet.Net()
    with fakenet.Installed(net):
        ls = net.socket()
        ls.owner = "raw"
        ls.bind(("127.0.0.1", 6101))
        ls.listen(5)
        c = http.Client(hostname="127.0.0.1", port=6101)
        c.reopen()
        c.request(**kw)
        for _ in range(3):
            c.service()
        peer, _ = ls.accept()
        return peer.recv(1 << 20)


def run_job(job, tier, seed):
    acc = Acc(job)
    _, method, pi = job
    path = PATHS[pi]
    cnt = 0
    hs = header_sets(tier)
    for qi, qargs in enumerate(qarg_sets(tier)):
        for hi, headers in enumerate(hs):
            for bi, (bkind, bval) in enumerate(BODIES):
                for explicit in (False, True):
                    if explicit and (method == "GET" or bi not in (1, 5)):
                        continue
                    case = [method, pi, qi, hi, bi, explicit, False]
                    viols = check(method, path, qargs, headers, bkind, bval, explicit)
                    cnt += 1
                    if viols or cnt % 1499 == 1:
                        acc.case(case, "ok" if not viols else viols[0][0], viols,
                                 sample=dict(method=method, path=path, qargs=qargs, headers=headers, body_kind=bkind))
                    else:
                        acc.bulk(1, 1)
        # the same through http.Client.request()/service() for one header/body choice
        case = [method, pi, qi, 1, 1, False, True]
        viols = check(method, path, qargs, hs[1], BODIES[1][0], BODIES[1][1], False, via_client=True)
        acc.case(case, "ok" if not viols else viols[0][0], viols) if viols else acc.bulk(1, 1)
    # second request of a reused Requester: it must be recovered on its own terms, nothing inherited from the first
    for pri in range(len(PRIORS)):
        for qs in range(len(SEQ_QARGS)):
            for hsel in range(len(SEQ_HEADERS)):
                for bi, (bkind, bval) in enumerate(BODIES):
                    viols = [("after-earlier-request:" + k, m) for k, m in
                             check(method, path, SEQ_QARGS[qs], SEQ_HEADERS[hsel], bkind, bval, False, prior=pri)]
                    case = ["seq", pri, method, pi, qs, hsel, bi]
                    cnt += 1
                    if viols or cnt % 1499 == 1:
                        acc.case(case, "ok" if not viols else viols[0][0], viols, sample=dict(method=method, path=path, prior=pri, body_kind=bkind))
                    else:
                        acc.bulk(1, 1)
    # the same request built twice by one Requester (a re-send): the second one is recovered like the first
    for qs in range(len(SEQ_QARGS)):
        for hsel in range(len(SEQ_HEADERS)):
            for bi, (bkind, bval) in enumerate(BODIES):
                viols = [("sent-again:" + k, m) for k, m in
                         check(method, path, SEQ_QARGS[qs], SEQ_HEADERS[hsel], bkind, bval, False, again=True)]
                case = ["again", 0, method, pi, qs, hsel, bi]
                cnt += 1
                if viols or cnt % 1499 == 1:
                    acc.case(case, "ok" if not viols else viols[0][0], viols, sample=dict(method=method, path=path, again=True, body_kind=bkind))
                else:
                    acc.bulk(1, 1)
    if pi == 0:
        for k, pq in enumerate(PATHQUERIES):
            viols = check_pathquery(method, pq)
            acc.case(["pq", k, method], "ok" if not viols else viols[0][0], viols, sample=dict(method=method, path=pq))
    acc.r.obs.add(hash((method, pi)))
    return acc.result()


def replay(job, case):
    import os
    if case[0] == "pq":
        return check_pathquery(case[2], PATHQUERIES[int(case[1])])
    if case[0] == "again":
        _, _z, method, pi, qs, hsel, bi = case
        return [("sent-again:" + k, m) for k, m in
                check(method, PATHS[pi], SEQ_QARGS[qs], SEQ_HEADERS[hsel], BODIES[bi][0], BODIES[bi][1], False, again=True)]
    if case[0] == "seq":
        _, pri, method, pi, qs, hsel, bi = case
        return [("after-earlier-request:" + k, m) for k, m in
                check(method, PATHS[pi], SEQ_QARGS[qs], SEQ_HEADERS[hsel], BODIES[bi][0], BODIES[bi][1], False, prior=pri)]
    method, pi, qi, hi, bi, explicit, via = case
    for tier in (os.environ.get("VERIF_TIER", "quick"), "thorough"):
        qs, hs = qarg_sets(tier), header_sets(tier)
        if qi < len(qs) and hi < len(hs):
            return check(method, PATHS[pi], qs[qi], hs[hi], BODIES[bi][0], BODIES[bi][1], bool(explicit), via_client=bool(via))
    return []
