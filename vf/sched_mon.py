"""Monitors / reference models for the scheduler group.  Each takes a sched.World
(after the run) and returns a list of (key, message) violations."""


def _pattern(evs):
    out = []
    for e in evs:
        ev = e[1]
        if ev == "exit_begin":
            continue
        if ev == "recur":
            if out and out[-1] == "recur+":
                continue
            ev = "recur+"
        out.append(ev)
    return "-".join(out)


def _cls(w, name):
    k = w.kind.get(name)
    if k == "D":
        return "DoDoer"
    if k in (0, 1):
        return "Doer"
    return "genfunc"


def _has_kbd(w):
    return any(a == ("raise", "K") for lst in w.decisions.values() for _, a in lst)


GOOD_TAILS = ("clean-exit", "cease-exit", "abort-exit")


def c01(w):
    """enter recur* (clean|cease|abort) exit, exactly once, nothing after exit, complete when do() ends."""
    v = []
    if w.result == "horizon":
        return [("no-termination", "run exceeded the cycle horizon")]
    kbd = ":kbd" if _has_kbd(w) else ""
    names = []
    for e in w.trace:
        if e[0] not in ("#", "") and e[0] not in names:
            names.append(e[0])
    for n in names:
        evs = [e for e in w.trace if e[0] == n]
        pat = _pattern(evs)
        ok = False
        for tail in GOOD_TAILS:
            if pat in ("enter-" + tail, "enter-recur+-" + tail):
                ok = True
        if not ok:
            v.append(("lifecycle:%s:%s%s" % (pat, _cls(w, n), kbd),
                      "doer %s (%s) went through %s" % (n, _cls(w, n), pat)))
            continue
        # the terminal says why it ended: a doer that finished by itself gets clean, one that raised gets abort
        decs = w.decisions.get(n, [])
        if w.kind.get(n) != "D" and decs and sum(1 for e in evs if e[1] == "enter") == 1:
            last = decs[-1][1]
            term = next((e[1] for e in evs if e[1] in ("clean", "cease", "abort")), None)
            want = "clean" if last[0] in ("ret", "done") else "abort" if last[0] == "raise" else None
            if want is not None and term != want:
                v.append(("lifecycle-terminal:%s-instead-of-%s:%s%s" % (term, want, _cls(w, n), kbd),
                          "doer %s (%s) %s, yet its terminal step was %s" % (n, _cls(w, n), "finished by itself" if want == "clean" else "raised", term)))
        # the lifecycle must be complete when the run ends (do() returned or raised), not finished
        # later by garbage collection of an orphaned generator
        patend = _pattern([e for e in w.trace[:w.end] if e[0] == n])
        if patend != pat:
            v.append(("lifecycle-incomplete-when-run-ends:%s:%s" % (patend, _cls(w, n)),
                      "doer %s had only gone through %s when do() had %s" % (n, patend, w.result)))
    return v


def _windows(w):
    """(scheduler name, begin index, end index) of every scheduler exit window"""
    out = []
    open_ = {}
    for i, e in enumerate(w.trace):
        if e[1] == "exit_begin":
            open_[e[0]] = i
        elif e[1] == "exit" and e[0] in open_:
            out.append((e[0], open_.pop(e[0]), i))
    return out


def c02(w):
    v = []
    if w.result == "horizon":
        return [("no-termination", "run exceeded the cycle horizon")]
    enter_idx = {}
    exit_idx = {}
    for i, e in enumerate(w.trace):
        if e[1] == "enter" and e[0] not in enter_idx:
            enter_idx[e[0]] = i
        if e[1] == "exit" and e[0] not in exit_idx:
            exit_idx[e[0]] = i
    extended = set()
    for c in w.calls:
        if c["op"] == "extend" and not c.get("cross"):   # a doer added from outside the scheduler's own pass keeps enter order
            extended.add(c["owner"])
    cause = "raise" if (w.result or "").startswith("raise") else "return"
    for s, b, e in _windows(w):
        kids = [n for n in enter_idx if w.parent.get(n) == s and enter_idx[n] < b
                and exit_idx.get(n, 1 << 30) > b]
        want = sorted(kids, key=lambda n: -enter_idx[n])
        got = [x[0] for x in w.trace[b:e] if x[1] == "exit" and x[0] in kids]
        scls = "Doist" if s == "" else "DoDoer"
        tag = scls + ":" + cause + ("+extend" if s in extended else "")
        if got != want:
            missing = [n for n in want if n not in got]
            if missing:
                v.append(("forced-exit-missing:" + tag,
                          "scheduler %r stopped; alive children %s (enter order reversed) but exits seen inside its exit: %s"
                          % (s, want, got)))
            else:
                v.append(("forced-exit-order:" + tag,
                          "scheduler %r stopped; children should exit in reverse enter order %s, observed %s"
                          % (s, want, got)))
    # everything entered is exited before do() returns or raises
    for n, i in enter_idx.items():
        x = exit_idx.get(n)
        if x is None:
            v.append(("never-exited:" + _cls(w, n), "doer %s entered but never exited (run %s)" % (n, w.result)))
        elif x >= w.end:
            v.append(("exit-after-run-returned:" + _cls(w, n) + ":" + cause,
                      "doer %s exited only after do() had %s" % (n, w.result)))
        # children before parent
        p = w.parent.get(n)
        if p and p in exit_idx and x is not None and exit_idx[p] < x:
            v.append(("parent-exited-before-child", "DoDoer %s exit completed before child %s exited" % (p, n)))
    return v


# ---------------------------------------------------------------------------
# C03 reference cycle model (statement-derived)

def leaves_in_enter_order(w):
    seen = []
    for e in w.trace:
        if e[1] == "enter" and w.kind.get(e[0]) != "D" and e[0] not in seen:
            seen.append(e[0])
    return seen


def c03(w):
    """per cycle: tyme advances by one tock; due doers run at most once, in enter order, observing the
    scheduler tyme; yield t>0 -> due += t ; yield 0/None -> next cycle."""
    if w.result == "horizon":
        return [("no-termination", "run exceeded the cycle horizon")]
    v = []
    T, start = w.T, w.start
    order = leaves_in_enter_order(w)
    dec = {n: [a for ph, a in w.decisions.get(n, []) if ph != "enter"] for n in order}
    due = {n: start for n in order}
    alive = {n: True for n in order}
    pos = {n: 0 for n in order}
    exp = {n: [] for n in order}
    expglobal = []
    prevact = {n: None for n in order}
    tyme = start
    for c in range(w.cycle):
        for n in order:
            if not alive[n] or not (due[n] <= tyme):
                continue
            if pos[n] >= len(dec[n]):
                exp[n].append((c, tyme, "?"))   # model wants a step the run never made
                alive[n] = False
                continue
            act = dec[n][pos[n]]
            pos[n] += 1
            exp[n].append((c, tyme))
            expglobal.append((c, n))
            if act[0] == "y":
                t = act[1]
                if not t:
                    due[n] = tyme + T
                else:
                    due[n] = due[n] + t
            else:
                alive[n] = False
        tyme = tyme + T
    nested = {n: ("nested" if w.parent.get(n) else "flat") for n in order}
    obs = {n: [] for n in order}
    obsglobal = []
    for e in w.trace:
        if e[1] == "recur" and e[0] in obs:
            obs[e[0]].append((e[3], e[2]))
            obsglobal.append((e[3], e[0]))
            if e[4] != e[2]:
                v.append(("tyme-arg-differs", "doer %s was sent tyme %r while scheduler tyme is %r" % (e[0], e[4], e[2])))
    if w.final_tyme != tyme:
        v.append(("tyme-advance", "after %d cycles tyme is %r, expected %r" % (w.cycle, w.final_tyme, tyme)))
    bad = False
    for n in order:
        o, x = obs[n], exp[n]
        if o == x:
            continue
        bad = True
        i = 0
        while i < len(o) and i < len(x) and o[i] == x[i]:
            i += 1
        prev = dec[n][i - 1] if 0 < i <= len(dec[n]) else None
        hist = "after-" + _acts(dec[n][:i])
        if i < len(o) and i < len(x):
            kind = "early" if o[i][0] < x[i][0] else "late" if o[i][0] > x[i][0] else "tyme"
        elif i < len(o):
            kind = "extra-run"
        else:
            kind = "missing-run" if len(x[i]) == 2 else "overrun"
        if kind == "overrun":
            # model expects a further step although the doer's script ended: impossible unless the
            # implementation skipped a step; report as missing
            kind = "missing-run"
        v.append(("due-%s:%s:%s" % (kind, nested[n], hist),
                  "doer %s (%s) observed (cycle,tyme) %s, cycle model says %s; yielded %s" % (
                      n, nested[n], o, x, dec[n])))
    if not bad and obsglobal != expglobal:
        v.append(("order-within-cycle", "recur order %s differs from enter order %s" % (obsglobal, expglobal)))
    # at most once per cycle
    for n in order:
        cyc = [c for c, _ in obs[n]]
        if len(cyc) != len(set(cyc)):
            v.append(("twice-in-cycle:" + nested[n], "doer %s ran twice in one cycle: %s" % (n, obs[n])))
    return v


def _acts(acts):
    """abstract a yield history: a = asap (0/None), p = positive tock"""
    s = "".join("a" if (a[0] == "y" and not a[1]) else "p" if a[0] == "y" else "r" for a in acts)
    # compress to the kinds present, keep the last two exactly
    return (("a" if "a" in s[:-2] else "") + ("p" if "p" in s[:-2] else "") + "." + s[-2:]) if s else "start"


# ---------------------------------------------------------------------------
# C05

def c05(w):
    if w.result == "horizon":
        return [("no-termination", "run exceeded the cycle horizon")]
    v = []
    T, start, L = w.T, w.start, w.limit
    tops = [n for n in w.order if w.parent.get(n) == ""]
    wins = [x for x in _windows(w) if x[0] == ""]
    if not wins:
        return [("no-exit-window", "Doist.exit was never called")]
    b = wins[-1][1]
    entered = {}
    exited = {}
    for i, e in enumerate(w.trace):
        if e[1] == "enter":
            entered.setdefault(e[0], i)
        if e[1] == "exit":
            exited.setdefault(e[0], (i, e[3]))
    if w.result == "return":
        alive_at_stop = [n for n in tops if n in entered and (n not in exited or exited[n][0] > b)]
        kobs = max([exited[n][1] for n in tops if n in exited and exited[n][0] < b] + [0])
        # tymes by repeated addition, as documented
        def tyme_after(ncycles):
            t = start
            for _ in range(ncycles):
                t = t + T
            return t
        if L:
            stop = start + L
            j = 0
            while not (tyme_after(j + 1) >= stop):
                j += 1
        else:
            j = None
        if not alive_at_stop:
            # completed by itself in cycle kobs
            if j is not None and kobs > j:
                v.append(("ran-past-limit", "limit %r: should stop after cycle %d, last completion in cycle %d" % (L, j, kobs)))
            if w.cycle != kobs + 1:
                v.append(("return-cycle:complete", "last doer completed in cycle %d but run returned after %d cycles" % (kobs, w.cycle)))
            if w.done is not True:
                v.append(("done-flag:complete", "all doers completed but doist.done is %r" % (w.done,)))
        else:
            if j is None:
                v.append(("returned-with-alive:nolimit", "no limit, run returned with alive doers %s" % alive_at_stop))
            else:
                if w.cycle != j + 1:
                    v.append(("limit-cycle", "limit %r tock %r start %r: expected stop after %d cycles, ran %d" % (L, T, start, j + 1, w.cycle)))
                if w.done is True:
                    v.append(("done-flag:limit", "stopped at limit with alive doers %s but doist.done is True" % alive_at_stop))
        if w.final_tyme != tyme_after(w.cycle):
            v.append(("final-tyme", "after %d cycles final tyme is %r expected %r" % (w.cycle, w.final_tyme, tyme_after(w.cycle))))
    else:
        if w.done is True:
            v.append(("done-flag:raise", "run raised (%s) but doist.done is True" % w.result))
    # per doer done flags
    for n in entered:
        node = w.nodes.get(n)
        if node is None:
            continue
        done = w.dones.get(n)
        atenter = getattr(w, "enter_done", {}).get(n, False)
        if atenter is not False:
            v.append(("done-not-false-at-enter:" + _cls(w, n), "doer %s had done=%r inside enter" % (n, atenter)))
        evs = [e[1] for e in w.trace if e[0] == n]
        if "clean" in evs:
            if w.kind[n] == "D":
                want = True
            else:
                last = w.decisions[n][-1][1]
                if last[0] in ("done", "ret"):
                    want = last[1] if last[1] is not None else "falsy"
                else:
                    want = None
            if want == "falsy":
                if done:
                    v.append(("doer-done:self-completed:%s:None" % _cls(w, n),
                              "doer %s returned None on its own but done is %r" % (n, done)))
            elif want is not None and done != want:
                v.append(("doer-done:self-completed:%s:%r" % (_cls(w, n), want),
                          "doer %s returned %r on its own but done is %r" % (n, want, done)))
        else:
            if w.kind[n] == "D" and node.always and any(c.get("cross") and c["owner"] == n for c in w.calls):
                # an always-DoDoer that idled (done True, see below) and was then given a new doer from outside keeps that
                # value until its next recur; runtime extension is outside this property's quantifier (C06 covers extend)
                continue
            if w.kind[n] == "D" and node.always and not _alive_kids_at_close(w, n):
                # an idle always-DoDoer reports done=True while it waits for more doers; hio's own
                # test_dodoer_always pins that value after a forced close: outside the property's domain
                continue
            if done is True:
                v.append(("doer-done:true-without-return:" + _cls(w, n),
                          "doer %s was %s but done is True" % (n, "/".join(x for x in evs if x in ("cease", "abort")) or "not finished")))
    return v


def _alive_kids_at_close(w, n):
    idx = [i for i, e in enumerate(w.trace) if e[0] == n and e[1] in ("cease", "abort", "exit_begin")]
    if not idx:
        return []
    b = idx[0]
    ent = {}
    ex = {}
    for i, e in enumerate(w.trace):
        if w.parent.get(e[0]) == n:
            if e[1] == "enter":
                ent.setdefault(e[0], i)
            if e[1] == "exit":
                ex.setdefault(e[0], i)
    return [k for k in ent if ent[k] < b and ex.get(k, 1 << 30) > b]


# ---------------------------------------------------------------------------
# C06

def _descendants(w, name):
    return [n for n in w.parent if n != name and _is_anc(w, name, n)]


def _is_anc(w, anc, n):
    p = w.parent.get(n)
    while p not in (None, "", "nowhere"):
        if p == anc:
            return True
        p = w.parent.get(p)
    return False


def c06(w):
    if w.result == "horizon":
        return [("no-termination", "run exceeded the cycle horizon")]
    v = []
    tr = w.trace
    model = {}     # owner -> model doers list
    ocls = lambda o: "Doist" if o == "" else "DoDoer"

    def initial(owner):
        return [n for n in w.order if w.parent.get(n) == owner and not n.startswith("x")]
    for c in w.calls:
        o = c["owner"]
        cur = model.get(o)
        if cur is None:
            cur = initial(o)
        if c["before"] != cur:
            v.append(("doers-list:drift:" + ocls(o), "before %s(%s) doers is %s, model says %s" % (c["op"], c["args"], c["before"], cur)))
            cur = list(c["before"])
        t0, t1 = c["t0"], c.get("t1", len(tr))
        win = tr[t0:t1]
        if "exc" in c:
            v.append(("%s-raises:%s:%s:%s" % (c["op"], c["exc"], c["what"], ocls(o)),
                      "%s(%s) called from %s raised %s" % (c["op"], c["args"], c["by"], c["exc"])))
            model[o] = list(c.get("after", cur))
            continue
        if c["op"] == "extend":
            new = []
            for a in c["args"]:
                if a not in cur and a not in new:
                    new.append(a)
            want = cur + new
            if c["after"] != want:
                v.append(("doers-list:extend:%s:%s" % (c["what"], ocls(o)),
                          "extend(%s): doers %s -> %s, expected %s" % (c["args"], cur, c["after"], want)))
            for a in set(c["args"]):
                n_enter = sum(1 for e in win if e[0] == a and e[1] == "enter")
                if a in new:
                    if n_enter != 1:
                        v.append(("extend-enter-count:%s:%s" % (c["what"], ocls(o)),
                                  "extend(%s): new doer %s entered %d times inside the call" % (c["args"], a, n_enter)))
                    # a doer that did not choose to finish inside its enter is still alive when extend() returns
                    if any(e[0] == a and e[1] == "exit" for e in win):
                        k = sum(1 for e in tr[:t0] if e[0] == a and e[1] == "enter")
                        ent = [act for ph, act in w.decisions.get(a, []) if ph == "enter"]
                        if k < len(ent) and ent[k][0] == "ok":
                            v.append(("extend-closed-inside-call:%s:%s" % (c["what"], ocls(o)),
                                      "extend(%s): new doer %s was entered and exited inside the call though it did not finish in enter" % (c["args"], a)))
                    # this membership of the doer ends at its next exit (it may be removed and added again later)
                    end = next((i for i in range(t1, len(tr)) if tr[i][0] == a and tr[i][1] == "exit"), len(tr))
                    if any(e[0] == a and e[1] == "exit" for e in win):
                        end = t1       # it finished inside its enter: this life is over (what follows belongs to a later one)
                    rec = [e for e in tr[t1:end] if e[0] == a and e[1] == "recur"]
                    # (a doer put into another scheduler that has its pass later in the same cycle starts there: the statement
                    #  speaks of the scheduler that is in the middle of its pass)
                    if rec and rec[0][3] != c["cycle"] + 1 and not (c.get("cross") and rec[0][3] == c["cycle"]):
                        v.append(("extend-first-recur:%s:%s" % ("same-cycle" if rec[0][3] == c["cycle"] else "late", ocls(o)),
                                  "doer %s added in cycle %d first recurred in cycle %d" % (a, c["cycle"], rec[0][3])))
                    cyc = [e[3] for e in rec]
                    if len(cyc) != len(set(cyc)):
                        v.append(("extend-twice-per-cycle:%s:%s" % (c["what"], ocls(o)),
                                  "doer %s added by extend(%s) recurs more than once per cycle: %s" % (a, c["args"], cyc)))
                    if not rec and not any(e[0] == a and e[1] == "exit" for e in win) and _ran_next_cycle(w, c, a):
                        v.append(("extend-never-recurs:" + ocls(o), "doer %s added in cycle %d did not recur in the next cycle" % (a, c["cycle"])))
                else:
                    if n_enter:
                        v.append(("extend-present-reentered:" + ocls(o), "extend(%s): already present doer %s was entered again" % (c["args"], a)))
            model[o] = want
        else:
            gone = []
            for a in c["args"]:
                if a in cur and a not in gone:
                    gone.append(a)
            want = [n for n in cur if n not in gone]
            if c["after"] != want:
                v.append(("doers-list:remove:%s:%s" % (c["what"], ocls(o)),
                          "remove(%s): doers %s -> %s, expected %s" % (c["args"], cur, c["after"], want)))
            for a in gone:
                selfish = (a == c["by"]) or _is_anc(w, a, c["by"])
                n_in = sum(1 for e in tr[:t0] if e[0] == a and e[1] == "enter")
                n_out = sum(1 for e in tr[:t0] if e[0] == a and e[1] == "exit")
                entered = n_in > 0
                exited = n_out >= n_in      # its latest life is over (a doer may have several)
                mine = [e[1] for e in win if e[0] == a and e[1] != "exit_begin"]
                readd = [x["t0"] for x in w.calls if x["op"] == "extend" and x["t0"] >= t1 and x["owner"] == o
                         and (a in x["args"])]
                tend = readd[0] if readd else len(tr)
                later = [e for e in tr[t1:tend] if e[0] == a]
                if selfish:
                    if "cease" in mine or "exit" in mine:
                        v.append(("remove-self-closed:" + ocls(o), "doer %s removing itself was closed inside remove()" % a))
                    elif (a == c["by"] and o == "" and w.result == "return" and w.limit is None
                          and not any(x is not c and a in x["args"] for x in w.calls)):
                        # it keeps running until it returns: in a run that ends on its own, nothing else may end it
                        end = getattr(w, "end", len(tr))
                        after = [e[1] for e in tr[t1:end] if e[0] == a]
                        if "cease" in after or "clean" not in after:
                            v.append(("remove-self-not-run-to-its-return:" + ocls(o),
                                      "doer %s removed itself in cycle %d; afterwards it saw %s, not its own return" % (a, c["cycle"], after[-4:])))
                    continue
                if entered and not exited:
                    if mine != ["cease", "exit"]:
                        v.append(("remove-not-closed:%s:%s" % ("-".join(mine) or "nothing", ocls(o)),
                                  "remove(%s) from %s: doer %s saw %s inside the call, expected cease, exit" % (c["args"], c["by"], a, mine)))
                elif mine:
                    v.append(("remove-completed-touched:" + ocls(o), "removed doer %s had already finished but saw %s" % (a, mine)))
                if later:
                    v.append(("removed-runs-again:" + ocls(o), "doer %s had events %s after its removal" % (a, [e[1] for e in later][:4])))
                for dsc in _descendants(w, a):
                    if any(e[0] == dsc for e in tr[t1:tend]):
                        v.append(("removed-descendant-runs:" + ocls(o), "descendant %s of removed %s had events after removal" % (dsc, a)))
            for a in c["args"]:
                if a not in cur:
                    if any(e[0] == a for e in win):
                        v.append(("remove-absent-touched:" + ocls(o), "remove of absent doer %s produced events" % a))
            model[o] = want
    # final membership
    for o, cur in model.items():
        node = w.doist if o == "" else w.nodes[o]
        from .sched import name_of
        have = [name_of(x) for x in node.doers]
        if have != cur:
            v.append(("doers-list:final:" + ocls(o), "final doers %s, model %s" % (have, cur)))
    return v


def _ran_next_cycle(w, c, a):
    """did the scheduler demonstrably run the cycle after the call, with the owner and doer a alive?"""
    nxt = c["cycle"] + 1
    by = c["by"]
    if not any(e[0] == by and e[1] == "recur" and e[3] == nxt for e in w.trace):
        return False
    if any(e[0] == a and e[1] in ("cease", "abort", "exit") for e in w.trace):
        # removed or closed: only a violation if that happened after the next cycle completed
        idx = [i for i, e in enumerate(w.trace) if e[0] == a and e[1] in ("cease", "abort", "exit")][0]
        return w.trace[idx][3] > nxt
    return w.cycle > nxt
