"""C04 - nesting doers inside a tock-0 DoDoer is observationally transparent (differential)."""
from .. import sched
from ..explore import Outcome, standard, sharded

PID = "C04"
LEVEL = "model_checking"
ASSUMPTIONS = [
    "CPython 3.12 generator semantics; virtual time (real=False)",
    "runs end by completion or limit (the property's quantifier); no raising doers",
    "regroupings: every forest of tock-0, non-always DoDoers over the same leaf sequence, nesting depth <= 3, <= 3 children per DoDoer",
]

MODE = sched.Mode("C04", prerun=True, tocks=True, rets=True, raises=False, enterdone=True, xtocks=True, horizon=4, limits=(None, 2.0, 2.5, 1.0))


def BOUND(tier):
    return 2 if tier == "quick" else 3


def RULE(tier):
    return ("flat forest of n leaves (n<=4) explored with <= %d deviations (thorough tier: one less for n=4) (config tock/start/limit, leaf kind, per-step yielded "
            "tock in {0,None,T/2,T,2T,0.1}, return True/False/None); every execution is re-run, with the recorded per-leaf "
            "decisions, under every regrouping of consecutive leaves into tock-0 DoDoers; the combined leaf event trace with "
            "tymes, done flags, doist.done, final tyme must be identical. evaluations counts flat runs; regrouped_runs counts "
            "the differential re-runs." % BOUND(tier))


def EXHAUSTIVE(tier):
    return False


def jobs(tier):
    js = [("C04", tuple("L" for _ in range(k))) for k in range(1, 5)]
    return js[:2] + sharded(js[2:3], 8) + sharded(js[3:], 48)


def job_bound(job, tier):
    """thorough tier: 4 leaves (335 regroupings per execution) get one deviation less"""
    return BOUND(tier) - (1 if tier != "quick" and len(job[1]) == 4 else 0)


_REGROUP = {}


def regroupings(n):
    if n not in _REGROUP:
        out = []
        for s in sched.shapes(3, maxtop=n, maxkids=3, maxleaves=n):
            if sched.count_leaves(s) == n and any(x != "L" for x in s):
                out.append(s)
        _REGROUP[n] = out
    return _REGROUP[n]


def leaf_names(w):
    return [n for n in w.order if w.kind.get(n) != "D"]


def view(w):
    """combined leaf trace with names replaced by DFS leaf index"""
    idx = {n: i for i, n in enumerate(leaf_names(w))}
    tr = tuple((idx[e[0]],) + tuple(e[1:]) for e in w.trace if e[0] in idx)
    dones = tuple(w.dones[n] for n in leaf_names(w))
    return (tr, dones, w.done, w.final_tyme, w.result, w.cycle)


def harness(job, ch):
    flat = sched.run(job, ch, mode=MODE)
    names = leaf_names(flat)
    base = view(flat)
    viol = []
    nre = 0
    cfg = (flat.T, flat.start, flat.limit, flat.via)
    table_by_idx = [flat.decisions.get(n, []) for n in names]
    kinds_by_idx = [flat.kindsel[n] for n in names]
    for shape in regroupings(len(names)):
        # names of leaves in the regrouped forest, DFS order
        probe = _dfs_leaf_names(shape)
        table = {probe[i]: table_by_idx[i] for i in range(len(probe))}
        kmap = {probe[i]: kinds_by_idx[i] for i in range(len(probe))}
        w = sched.run(("C04", shape), None, mode=MODE, table=table, cfg=cfg, kinds=lambda nm: kmap[nm])
        nre += 1
        got = view(w)
        if w.table_miss:
            viol.append(("regrouped-run-takes-extra-step", "regrouped %r: leaves asked for decisions the flat run never made: %s"
                         % (shape, w.table_miss[:3])))
        elif got != base:
            what = _first_diff(base, got)
            viol.append(("flat-vs-nested:" + what[0], "regrouping %r differs from flat run: %s" % (shape, what[1])))
    return Outcome(obs=base, violations=viol, states=sched.state_seq(flat),
                   sample=dict(leaves=len(names), regroupings=len(regroupings(len(names))),
                               decisions={k: repr(v) for k, v in flat.decisions.items()}))


def _dfs_leaf_names(shape, parent=""):
    out = []
    for i, s in enumerate(shape):
        name = parent + "abcdefgh"[i]
        if s == "L":
            out.append(name)
        else:
            out.extend(_dfs_leaf_names(s[2], name))
    return out


def _first_diff(a, b):
    if a[4] != b[4]:
        return ("result", "flat %r nested %r" % (a[4], b[4]))
    if a[5] != b[5] or a[3] != b[3]:
        return ("completion-cycle", "flat cycles/tyme %r/%r nested %r/%r" % (a[5], a[3], b[5], b[3]))
    if a[2] != b[2]:
        return ("doist-done", "flat %r nested %r" % (a[2], b[2]))
    if a[1] != b[1]:
        return ("done-flags", "flat %r nested %r" % (a[1], b[1]))
    ta, tb = a[0], b[0]
    for i in range(min(len(ta), len(tb))):
        if ta[i] != tb[i]:
            kind = "recur" if "recur" in (ta[i][1], tb[i][1]) else "exit-order" if ta[i][1] in ("cease", "exit") else "events"
            return (kind, "event %d flat %r nested %r" % (i, ta[i], tb[i]))
    return ("length", "flat %d events nested %d" % (len(ta), len(tb)))


_, replay = standard(harness, BOUND)


def run_job(job, tier, seed):
    from ..explore import explore_job
    return explore_job(harness, job, bound=job_bound(job, tier), seed=seed)


def finish(total, tier):
    return dict(regroupings_per_leafcount={k: len(regroupings(k)) for k in range(1, 5)})
