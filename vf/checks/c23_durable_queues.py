"""C23 - durable queue (Durq) / durable set queue (Dusq) behave as FIFO models and survive reopen.

E2: explicit-state BFS over operation histories against the REAL Durq/Dusq + Hold + Subery on a real LMDB
environment in a private /dev/shm sandbox, with a Python list as reference model in lock step.
"""

from .. import treeguard
from ..enum import Acc, bfs
from ..storesys import Sandbox, VfIce, VfReg, raw_items, site_of, sweep

treeguard()
from hio.base import during  # noqa: E402
from hio.base.hier.holding import Hold  # noqa: E402
from hio.base.hier.durqing import Durq  # noqa: E402
from hio.base.hier.dusqing import Dusq  # noqa: E402

PID = "C23"
LEVEL = "model_checking"
TAG = "c23"
NAME = "vfq"     # Subery name -> <sandbox>/hio/db/vfq
QKEY = "q"       # Hold key == key in the drqs./dsqs. sub-database
ASSUMPTIONS = [
    "values from a two-element domain {A, B} of registered dataclasses, in three flavours: A frozen IceRegDom / B mutable "
    "RegDom, both frozen, both mutable; a fresh instance is passed to every call (no aliasing from outside)",
    "one queue per store at Hold key 'q' (several queues whose keys collide are C24's subject)",
    "real LMDB (py-lmdb) in a private /dev/shm sandbox; 'reopen' = close the env, open a new Subery on the same path, new Hold, "
    "new empty Durq/Dusq assigned into the Hold (Hold.inject syncs it), i.e. an orderly close, not a torn write: LMDB's own "
    "crash atomicity is trusted",
    "return values: push -> True, pull -> oldest value or None, extend -> True, update -> True iff something new, "
    "clear -> True iff non-empty, remove -> True iff present (absent: False or KeyError both accepted, the docstring and the "
    "code disagree); len/count/cnt/stale are read after every operation rather than being events of their own",
]

A, B = "A", "B"
FLAVOURS = {
    "mix": {A: (VfIce, 1), B: (VfReg, 2)},
    "ice": {A: (VfIce, 1), B: (VfIce, 2)},
    "reg": {A: (VfReg, 1), B: (VfReg, 2)},
}

EVENTS = {
    "durq": [("push", A), ("push", B), ("pull",), ("extend", "AB"), ("extend", "BB"), ("clear",),
             ("reopen",), ("resync",), ("reopen-pre",), ("reopen-map",), ("extend-bad",)],
    "dusq": [("push", A), ("push", B), ("pull",), ("update", "AB"), ("update", "BB"), ("remove", A), ("remove", B),
             ("clear",), ("reopen",), ("resync",), ("reopen-pre",), ("reopen-map",), ("update-bad",)],
}
# reopen-pre: like reopen, but the new queue object already holds [B] when it is attached: a non-empty durable copy wins,
#             an empty one takes the queue's values (Durq.sync / Dusq.sync as documented)
# reopen-map: like reopen, but store and queue are handed to the new Hold together in one mapping (queue first)
# extend-bad / update-bad: the values [A, <not a data object>] are refused as a whole: HierError, nothing changes anywhere


def DEPTH(tier):
    return 7 if tier == "thorough" else 5


def RULE(tier):
    return ("explicit-state BFS to depth %d over ALL histories of Durq events %s and Dusq events %s (with the value flavours "
            "mix/ice/reg), one shard per first event; every history is replayed from an empty store on a wiped sandbox; a state "
            "is (in-memory content, durable (ordinal, value) list read straight through lmdb, stale flag) and states are "
            "deduplicated on it, so every (reached state, event) pair is executed once per shard. After EVERY operation: return "
            "value, list(q), len, count, durable raw content, sdb.get(key), sdb cnt and the stale flag are compared with a "
            "Python list / insertion-ordered-set model; 'reopen' must come back with exactly the model's content. The same search to "
            "depth-2 from queues built with values (A, AA, AB, BAB) BEFORE they are assigned into the Hold, i.e. that hold content "
            "(with duplicates) when they first become durable, and on a temp=True store that is closed plainly and re-opened in place."
            % (DEPTH(tier), [" ".join(e) for e in EVENTS["durq"]], [" ".join(e) for e in EVENTS["dusq"]]))


def EXHAUSTIVE(tier):
    return True


def BOUND(tier):
    return "history length <= %d" % DEPTH(tier)


def jobs(tier):
    sweep(TAG)
    out = []
    for kind in ("durq", "dusq"):
        n = len(EVENTS[kind])
        for flav in ("mix", "ice", "reg"):
            for k in range(n):
                out.append((kind, flav, k, n))
    # queues that already hold values (with duplicates) when they first become durable, to a smaller depth
    for kind in ("durq", "dusq"):
        for flav in ("ice", "reg"):
            for pre in PRELOADS:
                out.append((kind, flav, 0, 1, pre))
    # a temp=True store (keeps its directory over a plain close, re-opened in place), to the smaller depth
    for kind in ("durq", "dusq"):
        out.append((kind, "reg", 0, 1, "", "temp"))
    return out


PRELOADS = ["A", "AA", "AB", "BAB"]


# ------------------------------------------------------------------------------------------------ real system
class QSys:
    def __init__(self, sb, kind, flav, preload="", temp=False):
        self.sb, self.kind = sb, kind
        self.temp = temp                # a temp=True store: it keeps its directory over a plain close and is re-opened in place
        self.preload = preload          # values the queue holds BEFORE it is assigned into the Hold (first open only)
        self.handed = []                # the caller's own value objects given to the constructor
        self.vals = FLAVOURS[flav]
        self.lab = {}
        for name, (cls, v) in self.vals.items():
            self.lab[cls(v=v)] = name
        self.sub = None
        self.open()

    def val(self, name):
        cls, v = self.vals[name]
        return cls(v=v)

    def label(self, x):
        try:
            got = self.lab.get(x)
        except TypeError:
            got = None
        return got if got is not None else "?" + repr(x)

    def open(self):
        if self.temp and self.sub is not None:
            self.sub.reopen(reuse=True)     # the same store object, re-opened where it was
        elif self.temp:
            sbpath = self.sb.path

            class TempSubery(during.Subery):
                TempHeadDir = sbpath
            self.sub = TempSubery(name=NAME, temp=True, reopen=True)
        else:
            self.sub = during.Subery(name=NAME, headDirPath=self.sb.path, temp=False, reopen=True)
        self.sb.under(self.sub.path)
        if self.preload:
            self.handed = [self.val(c) for c in self.preload]
            self.q = Durq(self.handed) if self.kind == "durq" else Dusq(self.handed)
            self.preload = ""
        else:
            self.q = Durq() if self.kind == "durq" else Dusq()
        if getattr(self, "as_mapping", False):
            self.as_mapping = False
            self.hold = Hold({QKEY: self.q, "_hold_subery": self.sub})      # Hold.update(mapping) -> inject -> sync
        else:
            self.hold = Hold()
            self.hold["_hold_subery"] = self.sub
            self.hold[QKEY] = self.q      # Hold.__setitem__ -> inject -> sync
        self.sdb = self.sub.drqs if self.kind == "durq" else self.sub.dsqs

    def close(self):
        if self.sub is not None:
            self.sub.close()

    def reopen(self):
        self.sub.close()
        self.open()

    def raw(self):
        """[(ordinal, label)] of everything in the sub-database, read without hio's cursor code; foreign keys show up as
        ('!key', label)"""
        out = []
        for k, v in raw_items(self.sub.env, self.sdb.sdb):
            head, _, tail = k.rpartition(b".")
            try:
                ion = int(tail, 16) if head == QKEY.encode() and len(tail) == 32 else "!" + k.decode("latin-1")
            except ValueError:
                ion = "!" + k.decode("latin-1")
            try:
                lab = self.label(self.sdb._des(v))
            except Exception as ex:
                lab = "?undecodable:" + type(ex).__name__
            out.append((ion, lab))
        return out


def model_step(kind, model, ev):
    """reference: returns (expected result(s), new model). The expected result is a tuple of accepted values."""
    op = ev[0]
    m = list(model)
    if op == "push":
        if kind == "durq" or ev[1] not in m:
            m.append(ev[1])
        return (True,), m
    if op == "pull":
        if m:
            return (m[0],), m[1:]
        return (None,), m
    if op == "extend":
        m.extend(ev[1])
        return (True,), m
    if op == "update":
        new = False
        for x in ev[1]:
            if x not in m:
                m.append(x)
                new = True
        return (new,), m
    if op == "clear":
        return (bool(m),), []
    if op == "remove":
        if ev[1] in m:
            m.remove(ev[1])
            return (True,), m
        return (False, "exc:KeyError"), m
    if op in ("reopen", "resync", "reopen-map"):
        return None, m
    if op == "reopen-pre":
        return None, (m if m else [B])
    if op in ("extend-bad", "update-bad"):
        return ("exc:HierError",), m
    raise ValueError(ev)


def real_step(s, ev):
    op = ev[0]
    q = s.q
    if op == "push":
        return q.push(s.val(ev[1]))
    if op == "pull":
        r = q.pull()
        return None if r is None else s.label(r)
    if op == "extend":
        return q.extend([s.val(x) for x in ev[1]])
    if op == "update":
        return q.update([s.val(x) for x in ev[1]])
    if op == "clear":
        return q.clear()
    if op == "remove":
        return q.remove(s.val(ev[1]))
    if op == "reopen":
        s.reopen()
        return None
    if op == "reopen-pre":
        s.preload = B
        s.reopen()
        return None
    if op == "reopen-map":
        s.as_mapping = True
        s.reopen()
        return None
    if op == "extend-bad":
        return q.extend([s.val(A), "not a data object"])
    if op == "update-bad":
        return q.update([s.val(A), "not a data object"])
    if op == "resync":
        s.q.sync(force=True)
        return None
    raise ValueError(ev)


def observe(s):
    q = s.q
    o = {}
    try:
        o["mem"] = [s.label(x) for x in q]
    except Exception as ex:
        o["mem"] = ["!exc:" + type(ex).__name__]
    try:
        o["len"] = len(q)
    except Exception as ex:
        o["len"] = "exc:" + type(ex).__name__
    if s.kind == "durq":
        try:
            o["count"] = (q.count(s.val(A)), q.count(s.val(B)))
        except Exception as ex:
            o["count"] = "exc:" + type(ex).__name__
    else:
        o["count"] = None
    try:
        o["cnt"] = q.cnt()
    except Exception as ex:
        o["cnt"] = "exc:" + type(ex).__name__
    o["stale"] = bool(q.stale)
    o["durable"] = bool(q.durable)
    o["raw"] = s.raw()
    try:
        o["get"] = [s.label(x) for x in s.sdb.get(QKEY)]
    except Exception as ex:
        o["get"] = ["!exc:" + type(ex).__name__]
    return o


def consistent(o):
    """both copies (and every view of them) agree with each other"""
    return (o["mem"] == [lab for _, lab in o["raw"]] == o["get"] and all(isinstance(i, int) for i, _ in o["raw"])
            and o["len"] == len(o["mem"]) and o["cnt"] == len(o["mem"]))


def compare(kind, ev, o, model, hist):
    """violations of the state clauses after event ev: one key per copy (all views of a copy together)"""
    op = ev[0]
    v = []
    where = "after %s in history %r" % (" ".join(ev), hist)
    bad = []
    if o["mem"] != model:
        bad.append("list(q)=%r" % (o["mem"],))
    if o["len"] != len(model):
        bad.append("len=%r" % (o["len"],))
    if kind == "durq" and o["count"] != (model.count(A), model.count(B)):
        bad.append("count(A),count(B)=%r" % (o["count"],))
    if bad:
        v.append(("memory-differs:%s:after-%s" % (kind, op), "%s, model %r %s" % (", ".join(bad), model, where)))
    bad = []
    if [lab for _, lab in o["raw"]] != model or any(not isinstance(i, int) for i, _ in o["raw"]):
        bad.append("durable copy (ordinal, value)=%r" % (o["raw"],))
    if o["get"] != model:
        bad.append("sdb.get(key)=%r" % (o["get"],))
    if o["cnt"] != len(model):
        bad.append("cnt()=%r" % (o["cnt"],))
    if bad:
        v.append(("durable-differs:%s:after-%s" % (kind, op), "%s, model %r %s" % (", ".join(bad), model, where)))
    if o["stale"] or not o["durable"]:
        v.append(("stale-flag:%s:after-%s" % (kind, op), "stale=%r durable=%r on an injected, synced queue %s"
                  % (o["stale"], o["durable"], where)))
    return v


def execute(sb, kind, flav, hist, last_only, preload="", temp=False):
    """replays hist on a fresh store; returns (state key, violations, observation).

    Cascades are cut: (1) an operation that raises is ONE failure (its message says whether it left a partial effect);
    (2) once the two copies disagree (possible only after a reported violation) behaviour is unspecified, so nothing is
    checked until they agree again; (3) after a violation the model follows the implementation."""
    sb.wipe()
    s = QSys(sb, kind, flav, preload, temp=temp)
    try:
        model = []
        for c in preload:
            if kind == "durq" or c not in model:
                model.append(c)
        viols = []
        o = observe(s)
        if not hist:
            viols.extend(compare(kind, ("init",), o, model, hist))
            if preload and kind == "dusq" and any(hasattr(x, "__dataclass_fields__") and not type(x).__dataclass_params__.frozen for x in s.handed):
                # the set keeps its own copies of what it was built from: the caller changing ITS objects afterwards changes nothing
                for x in s.handed:
                    if not type(x).__dataclass_params__.frozen:
                        x.v = 99
                o2 = observe(s)
                if o2 != o:
                    viols.append(("aliases-caller-values:dusq:preload", "after the caller changed the objects it had built Dusq(%s) from, "
                                  "the queue reads %r (before %r)" % (preload, o2["mem"], o["mem"])))
        res = None
        for i, ev in enumerate(hist):
            ev = tuple(ev)
            step = []
            prev = o
            checked = consistent(prev)
            want, model = model_step(kind, model, ev)
            raised = False
            try:
                res = real_step(s, ev)
            except Exception as ex:
                res = "exc:" + type(ex).__name__
                if want is None or res not in want:
                    raised = True
                    o = observe(s)
                    step.append(("raises:%s.%s:%s" % (kind, ev[0], type(ex).__name__),
                                 "%s raised %r at %s in history %r; %s"
                                 % (" ".join(ev), ex, site_of(ex), list(hist[:i + 1]),
                                    "nothing changed" if o == prev else "state before %r, after %r" % (prev, o))))
            else:
                if want is not None and not any(res is w or (res == w and type(res) is type(w)) for w in want):
                    step.append(("result:%s.%s" % (kind, ev[0]), "%s returned %r, model %r in history %r"
                                 % (" ".join(ev), res, want[0], list(hist[:i + 1]))))
            if not raised:
                o = observe(s)
                step.extend(compare(kind, ev, o, model, list(hist[:i + 1])))
            if not checked:
                step = []
            if step or not checked:
                model = [x for x in o["mem"]]   # keep following the implementation
            if not last_only or i == len(hist) - 1:
                viols.extend(step)
        key = (tuple(o["mem"]), tuple(o["raw"]), o["stale"])
        return key, viols, (key, repr(res))
    finally:
        s.close()


def run_job(job, tier, seed):
    kind, flav, k, n = job[:4]
    pre = job[4] if len(job) > 4 else ""
    temp = len(job) > 5 and job[5] == "temp"
    acc = Acc(job)
    with Sandbox(TAG) as sb:
        def run(hist):
            return execute(sb, kind, flav, hist, last_only=True, preload=pre, temp=temp)
        if pre or temp:
            bfs(acc, run, lambda hist, key: EVENTS[kind], maxdepth=DEPTH(tier) - 2)
        else:
            bfs(acc, run, lambda hist, key: EVENTS[kind], maxdepth=DEPTH(tier), first=(int(k), int(n)))
    return acc.result()


def replay(job, hist):
    kind, flav = job[0], job[1]
    pre = job[4] if len(job) > 4 else ""
    temp = len(job) > 5 and job[5] == "temp"
    with Sandbox(TAG) as sb:
        return execute(sb, kind, flav, [tuple(e) for e in hist], last_only=False, preload=pre, temp=temp)[1]


def finish(total, tier):
    return dict(depth=DEPTH(tier), exhaustive=True,
                note="frontier left at the depth bound is expected: ordinals and queue length grow without bound")
