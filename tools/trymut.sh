#!/bin/sh
# tools/trymut.sh <patch.diff> <demo.py|-> <CHECK ids...> : apply a seeded change to /repo, run demo + checks, revert
P="$1"; D="$2"; shift 2
cd /repo || exit 2
if [ -n "$(git status --porcelain)" ]; then echo "repo not clean"; exit 2; fi
if [ "$D" != "-" ]; then
  PYTHONWARNINGS=ignore PYTHONPATH=/repo/src timeout 300 /venv/bin/python "$D" >/dev/null 2>&1; echo "demo on clean tree: exit $?"
fi
git apply "$P" || { echo "patch does not apply"; exit 2; }
if [ "$D" != "-" ]; then
  PYTHONWARNINGS=ignore PYTHONPATH=/repo/src timeout 300 /venv/bin/python "$D" >/dev/null 2>&1; echo "demo on changed tree: exit $?"
fi
# evidence files describe the unchanged tree: keep them aside while the changed tree is checked
EVB=$(mktemp -d /root/scratch/evb.XXXXXX 2>/dev/null || mktemp -d)
cp -p /verif/evidence/*.json "$EVB"/ 2>/dev/null
for c in "$@"; do
  out=$(cd /verif && VERIF_TIER=${TIER:-quick} ./check $c --tier ${TIER:-quick} 2>&1); rc=$?
  echo "== $c exit=$rc"; echo "$out" | grep -E "VIOLATION|BROKEN" | cut -c1-260 | head -${NV:-4}
  if [ -f "$EVB/$c.json" ]; then cp -p "$EVB/$c.json" /verif/evidence/$c.json; else rm -f /verif/evidence/$c.json; fi
done
rm -rf "$EVB"
git -C /repo checkout -- . ; git -C /repo status --porcelain
rm -rf /tmp/hio* /root/hio 2>/dev/null
