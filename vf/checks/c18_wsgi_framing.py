"""C18 - WSGI responses are framed and pipelined requests answered in order."""
import http.client
import io

from .. import tcpsys, treeguard
from ..env import fakenet
from ..explore import Outcome, standard, sharded

treeguard()
from hio.core import http as hhttp  # noqa: E402

PID = "C18"
LEVEL = "model_checking"
ASSUMPTIONS = [
    "kernel replaced by FakeNet (default answers plus partial sends on the server side)",
    "the byte stream the client receives is split by CPython's http.client.HTTPResponse (independent parser) reading from one shared buffer",
    "expected persistence: HTTP/1.1 unless 'Connection: close'; HTTP/1.0 only with 'Connection: keep-alive' and a declared "
    "Content-Length (an unframed HTTP/1.0 response can only be delimited by closing)",
]
REQKINDS = [("HTTP/1.1", None), ("HTTP/1.1", "keep-alive"), ("HTTP/1.1", "close"), ("HTTP/1.0", None), ("HTTP/1.0", "keep-alive"), ("HTTP/1.0", "close"),
            ("HTTP/1.1", "TE, close"), ("HTTP/1.1", "Close")]      # the close option among several options / in another case
PIECES = [[b"ab"], [], [b"ab", b"c"], [b"", b"ab"], [b"ab", b"", b"c"], [b"c"], [b"ab", b"cd"]]   # last: a declared length one short ends INSIDE the second piece
CLMODES = ["exact", "absent", "short", "te-chunked", "httperror", "httperror-mid"]
# httperror: the app raises httping.HTTPError (carrying its own, wrong, Content-Length header) instead of answering: the server
#            renders the error itself; httperror-mid: no length declared, first piece yielded, then HTTPError is raised      # last: no length, the app itself asks for chunked transfer (HTTP/1.1 requests only)
STATUSES = ["200 OK", "404 Not Found"]


def BOUND(tier):
    return 2 if tier == "quick" else 3


def RULE(tier):
    return ("real http.Server over FakeNet; 1-3 requests on one connection (free choice), pipelined in one segment, sent one after "
            "the other, or one after the other each in two segments with service passes in between; the app may call start_response "
            "twice (the second call, with exc_info, replaces status and headers); per request: HTTP/1.0|1.1 x Connection absent|keep-alive|close|'TE, close'|'Close', scripted WSGI app status 200|404, "
            "Content-Length exact|absent|shorter than body|absent with the app itself announcing chunked transfer|the app raising HTTPError before answering (with a wrong length of its own) or after its first piece, body pieces from 7 lists incl. empty pieces and a one-byte body (declared length 0 when cut short); server-side partial sends; "
            "all executions with <= %d deviations. Oracle: the received byte stream parses (independent stdlib parser) into exactly "
            "the expected responses in request order with the app's status, X-Idx header and body (cut at a declared length), each "
            "self-delimiting unless the connection then closes, and EOF arrives iff the last answered request was not persistent." % BOUND(tier))


def EXHAUSTIVE(tier):
    return False


def jobs(tier):
    return sharded([("C18", n) for n in (1, 2, 3)], 8 if tier == "quick" else 32)


class _Sock:
    def __init__(self, fp):
        self.fp = fp

    def makefile(self, mode):
        return self.fp


class _NoClose(io.BufferedReader):
    def close(self):
        pass


def split_responses(stream, maxn):
    """parse stream with http.client; returns list of (status, headers dict, body, self_delimiting) and leftover/err"""
    fp = _NoClose(io.BytesIO(stream))
    out = []
    err = None
    for _ in range(maxn + 2):
        if fp.peek(1) == b"":
            break
        r = http.client.HTTPResponse(_Sock(fp), method="GET")
        try:
            r.begin()
            selfdel = bool(r.chunked) or r.length is not None
            body = r.read()
        except Exception as ex:
            err = "%s: %s" % (type(ex).__name__, ex)
            break
        out.append((r.status, {k.lower(): v for k, v in r.getheaders()}, body, selfdel))
    return out, err


def harness(job, ch):
    nreq = job[1]
    reqs = []
    restarts = []
    for i in range(nreq):
        kind = REQKINDS[ch.choose(len(REQKINDS), "req%d:kind" % i)]
        status = STATUSES[ch.choose(len(STATUSES), "req%d:status" % i)]
        cl = CLMODES[ch.choose(len(CLMODES), "req%d:cl" % i)]
        pieces = PIECES[ch.choose(len(PIECES), "req%d:pieces" % i)]
        if cl == "te-chunked" and kind[0] != "HTTP/1.1":
            cl = "absent"      # an application must not announce chunked transfer to an HTTP/1.0 client
        reqs.append((kind, status, cl, pieces))
        restarts.append(ch.choose(2, "req%d:start-twice" % i) == 1)
    delivery = ch.choose(3, "delivery")      # 0 one after the other, 1 pipelined in one segment, 2 one after the other, each in two segments
    pipelined = delivery == 1

    def app(environ, start_response):
        i = int(environ["PATH_INFO"][2:])
        kind, status, cl, pieces = reqs[i]
        body = b"".join(pieces)
        headers = [("X-Idx", str(i)), ("Content-Type", "text/plain")]
        if cl == "httperror":
            def genx():      # (a generator: hio catches HTTPError where it steps the application's iterator)
                from hio.core.http import httping as _h
                raise _h.HTTPError(409, title="conflict", detail="scripted", headers={"X-Idx": str(i), "Content-Length": "999"})
                yield b""
            return genx()
        if cl == "httperror-mid":
            start_response(status, headers)

            def gen():
                from hio.core.http import httping as _h
                if pieces:
                    yield pieces[0]
                raise _h.HTTPError(500, title="late", detail="after the head was sent")
            return gen()
        if cl == "exact":
            headers.append(("Content-Length", str(len(body))))
        elif cl == "short":
            headers.append(("Content-Length", str(max(0, len(body) - 1))))
        elif cl == "te-chunked":
            headers.append(("Transfer-Encoding", "chunked"))
        if restarts[i]:
            # WSGI: start_response may be called again (with exc_info) as long as nothing has been sent; the second call replaces the first
            start_response("500 Internal Server Error", [("X-Idx", "none"), ("Content-Length", "1")])
            try:
                raise RuntimeError("application changed its mind")
            except RuntimeError:
                import sys as _sys
                start_response(status, headers, _sys.exc_info())
        else:
            start_response(status, headers)
        return iter(list(pieces))

    pol = tcpsys.XPolicy(ch, partial=True, faults=(), wants=False, connect_alts=False, only={"srv"})
    orig_send = pol.send

    def send(sock, n):
        if sock.kind == "accepted":      # only the server side sends partially
            return orig_send(sock, n)
        return n
    pol.send = send
    pol.recv = lambda sock, avail, bs: min(avail, bs)
    net = fakenet.Net(pol)
    viol = []
    with fakenet.Installed(net):
        server = hhttp.Server(host="127.0.0.1", port=6101, app=app)
        server.reopen()
        raw = net.socket()
        raw.owner = "raw"
        raw.connect_ex(("127.0.0.1", 6101))
        escaped = None
        stream = bytearray()

        def msg(i):
            ver, conn = reqs[i][0]
            m = ("GET /r%d %s\r\nHost: h\r\n" % (i, ver)).encode()
            if conn:
                m += ("Connection: %s\r\n" % conn).encode()
            return m + b"\r\n"

        def svc(n):
            nonlocal escaped
            for _ in range(n):
                try:
                    server.service()
                except Exception as ex:
                    escaped = (tcpsys.site_of(ex), type(ex).__name__)
                    return
                if raw.rx:
                    stream.extend(raw.rx)
                    del raw.rx[:]
        svc(1)
        if pipelined:
            try:
                raw.send(b"".join(msg(i) for i in range(nreq)))
            except OSError:
                pass
            svc(6 + 4 * nreq)
        else:
            for i in range(nreq):
                if raw.rx_eof or raw.err_pending or raw.reset:
                    break
                try:
                    m = msg(i)
                    if delivery == 2:      # the request line and the first header, a service pass, then the rest
                        cut = m.index(b"\r\n", m.index(b"\r\n") + 2) + 2
                        raw.send(m[:cut])
                        svc(2)
                        raw.send(m[cut:])
                    else:
                        raw.send(m)
                except OSError:
                    break
                svc(8)
        pol.settle = True
        svc(6)
        eof = raw.rx_eof
        import re as _re
        stream = bytearray(_re.sub(rb"Date: [^\r]*\r\n", b"Date: -\r\n", bytes(stream)))   # the only volatile bytes on the wire
        # expectations
        def persistent(k):
            ver, conn = k
            opts = [t.strip().lower() for t in (conn or "").split(",")]
            return (ver == "HTTP/1.1" and "close" not in opts) or (ver == "HTTP/1.0" and "keep-alive" in opts)
        def keeps_open(i):
            # a response to an HTTP/1.0 client cannot be chunked: without a declared length it is delimited by
            # closing the connection (RFC 7230 3.3.3 / 6.3), so keep-alive cannot be honoured for it
            kind, status, cl, pieces = reqs[i]
            unframed = cl == "absent" or (cl == "httperror-mid" and bool(pieces and pieces[0]))    # (an error before anything was sent is rendered with a length)
            return persistent(kind) and not (kind[0] == "HTTP/1.0" and unframed)
        expected = []
        for i, (kind, status, cl, pieces) in enumerate(reqs):
            body = b"".join(pieces)
            if cl == "short":
                body = body[:max(0, len(body) - 1)]
            if cl == "httperror":
                expected.append((409, str(i), None, cl))      # the server's own rendering of the error: body not compared
            elif cl == "httperror-mid" and not (pieces and pieces[0]):
                expected.append((500, None, None, cl))        # nothing had been sent yet: the server answers with the error itself
            elif cl == "httperror-mid":
                expected.append((int(status[:3]), str(i), pieces[0], cl))
            else:
                expected.append((int(status[:3]), str(i), body, cl))
            if not keeps_open(i):
                break
        want_eof = not keeps_open(len(expected) - 1)
        tag = "%s:%s" % ("pipelined" if pipelined else "sequential" if delivery == 0 else "sequential-split", "first" if len(expected) == 1 else "later")
        if escaped:
            viol.append(("escape:%s:%s" % escaped, "server.service raised %s at %s" % (escaped[1], escaped[0])))
        else:
            got, err = split_responses(bytes(stream), len(expected))
            desc = "requests %s -> stream %r" % ([(r[0], r[1][:3], r[2], len(b''.join(r[3]))) for r in reqs], bytes(stream)[:300])
            if err:
                viol.append(("unparsable-stream:%s" % tag, "independent parser failed (%s); %s" % (err, desc)))
            elif len(got) != len(expected):
                j = min(len(got), len(expected)) - 1
                why = "unframed" if got and not got[-1][3] and len(got) < len(expected) else "count"
                kindj = reqs[max(0, len(got) - 1)]
                viol.append(("response-%s:%s:%s:cl-%s" % (why, tag, kindj[0][0].replace("/", ""), kindj[2]),
                             "expected %d responses, stream holds %d; %s" % (len(expected), len(got), desc)))
            else:
                for i, ((st, hd, body, selfdel), (wst, widx, wbody, cl)) in enumerate(zip(got, expected)):
                    last = i == len(expected) - 1
                    if st != wst or hd.get("x-idx") != widx:
                        viol.append(("response-order-or-status:%s" % tag, "response %d has status %s idx %s expected %s/%s; %s" % (i, st, hd.get("x-idx"), wst, widx, desc)))
                    elif wbody is not None and body != wbody:
                        viol.append(("response-body:%s:cl-%s" % (tag, cl), "response %d body %r expected %r; %s" % (i, body, wbody, desc)))
                    if not selfdel and not (last and want_eof):
                        viol.append(("not-self-delimiting:%s:%s:cl-%s" % (tag, reqs[i][0][0].replace("/", ""), cl),
                                     "response %d has neither length nor chunking but the connection stays open; %s" % (i, desc)))
                if eof != want_eof:
                    viol.append(("close-mismatch:%s:%s" % ("closed" if eof else "kept-open", reqs[len(expected) - 1][0][0].replace("/", "") + "-" + str(reqs[len(expected) - 1][0][1])),
                                 "after the last response EOF=%s but request persistence says %s; %s" % (eof, "close" if want_eof else "keep open", desc)))
        obs = (bytes(stream), eof, escaped)
    return Outcome(obs=obs, violations=viol, states=None,
                   sample=dict(requests=[(r[0][0], r[0][1], r[1], r[2], [p.decode() for p in r[3]]) for r in reqs], pipelined=pipelined,
                               stream=repr(bytes(stream)[:200]), eof=eof))


run_job, replay = standard(harness, BOUND)
