"""Explorer self-test: a toy harness with a planted bug that needs two deviations, and a planted
nondeterminism that must trip the replay guard."""
import sys

from .explore import Chooser, Nondeterminism, Outcome, explore_job


def toy(job, ch):
    buf = []
    for i in range(4):
        n = ch.choose(3, "w%d" % i)
        buf.append(n)
    bad = buf[1] == 2 and buf[3] == 1
    return Outcome(obs=tuple(buf), violations=[("planted", "b1==2 and b3==1")] if bad else [])


_flip = [0]


def flaky(job, ch):
    _flip[0] += 1
    ch.choose(2, "a")
    ch.choose(2 + (_flip[0] % 2), "b")
    ch.choose(2, "c")
    return Outcome(obs=_flip[0])


def spinner(job, ch):
    """spins for ever when the second choice is taken; swallows the interrupt once, as harnesses that record escapes do"""
    a = ch.choose(2, "a")
    b = ch.choose(2, "b")
    if b:
        try:
            while True:
                pass
        except BaseException:
            pass
        while True:
            pass
    return Outcome(obs=(a, b))


def main():
    r1 = explore_job(toy, ("toy",), bound=1)
    r2 = explore_job(toy, ("toy",), bound=2)
    rf = explore_job(toy, ("toy",), bound=None)
    assert not r1.violations, "bound 1 must not reach the planted bug"
    assert "planted" in r2.violations and r2.violations["planted"]["ndev"] == 2
    assert rf.executions == 81 and len(rf.obs) == 81, rf.executions
    assert r1.executions == 1 + 4 * 2 and r2.executions == 1 + 8 + 24, (r1.executions, r2.executions)
    # sharded exploration covers exactly the same executions
    tot = 0
    obs = set()
    for k in range(3):
        r = explore_job(toy, ("toy", ("shard", k, 3)), bound=2)
        tot += r.executions
        obs |= r.obs
    assert tot == r2.executions and obs == r2.obs, (tot, r2.executions)
    try:
        explore_job(flaky, ("flaky",), bound=2)
    except Nondeterminism:
        pass
    else:
        raise AssertionError("replay guard did not notice nondeterminism")
    from . import explore
    saved = explore.HANG_SECONDS
    explore.HANG_SECONDS = 0.3
    try:
        rh = explore_job(spinner, ("spinner",), bound=None)
    finally:
        explore.HANG_SECONDS = saved
    assert "hang:execution" in rh.violations and rh.capped, "a spinning execution must become hang:execution and stop the job"
    print("selftest ok: planted bug found at bound 2 (%d executions), full tree %d, replay guard trips, hang guard trips" % (r2.executions, rf.executions))


if __name__ == "__main__":
    sys.exit(main())
