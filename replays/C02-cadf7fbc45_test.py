# generated: plain replay of one counterexample, no explorer involved
import json, subprocess, sys
def test_replay():
    r = subprocess.run(['/verif/check', 'C02', '--replay', '/verif/replays/C02-cadf7fbc45.json'], capture_output=True, text=True)
    assert r.returncode == 0, r.stdout
if __name__ == '__main__':
    test_replay()
