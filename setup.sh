#!/bin/sh
# Nothing is compiled: the checks import /repo/src as it is. This only verifies the tool chain.
cd /verif || exit 1
export PYTHONWARNINGS=ignore PYTHONHASHSEED=0 PYTHONPATH=/verif
/venv/bin/python -c "import vf; h=vf.treeguard(); print('hio from', h.__file__)" || exit 1
/venv/bin/python -m vf.selftest || exit 1
/venv/bin/python -m vf.env.fakenet_conf || exit 1
