"""Shared harness pieces for the memo group (C20, C21, C22).

* deterministic memo ids: `hio.core.memo.memoing.uuid` is replaced by a counter-based source (reset per case);
* fixed ed25519 signers (seeds are constants);
* guards for calls that may loop for ever (step guard on a property read inside the loop + CPU-time itimer backstop);
* a reference gram builder written from the format description in memoing.py's module docstring
  (used to craft hostile grams and as an independent view of the wire format);
* receivers fed through the real `receive(echoic=True)` path (the datagram queue `.echos`), real `serviceAllRx()`;
* a fake datagram socket namespace for `hio.core.udp.udping.socket`.
"""
import errno
import hashlib
import signal
import socket as _real
from base64 import urlsafe_b64decode, urlsafe_b64encode
from contextlib import contextmanager
from types import SimpleNamespace

from . import treeguard

treeguard()
import pysodium  # noqa: E402
from hio.core.memo import memoing  # noqa: E402
from hio.core.memo.memoing import AuthMemoer, Keyage, Memoer  # noqa: E402

ZCODES = ["bAAA", "bAAC", "bAAE", "bAAG"]          # plain, auth, sure, sure+auth zeroth-gram codes
PAIR = {"bAAA": "bAAB", "bAAC": "bAAD", "bAAE": "bAAF", "bAAG": "bAAH"}
SIGNED = {"bAAC", "bAAG"}
# overhead in base64 characters (zeroth, other); base2 headers take 3/4 of that
OVERHEAD = {"bAAA": (32, 32), "bAAE": (32, 32), "bAAC": (164, 120), "bAAG": (164, 120)}


# ---------------------------------------------------------------- memo ids
class FakeUuid:
    """uuid module stand-in: uuid1().bytes is a hash of a counter"""

    def __init__(self):
        self.n = 0

    def reset(self, n=0):
        self.n = n

    def uuid1(self):
        self.n += 1
        return SimpleNamespace(bytes=hashlib.blake2b(b"mid%d" % self.n, digest_size=16).digest())


UUID = FakeUuid()
memoing.uuid = UUID


# ---------------------------------------------------------------- signers
def signer(seed):
    vk, sk = pysodium.crypto_sign_seed_keypair(seed)
    vid = Memoer._encodeVID(raw=vk, code="B")
    keep = {vid: Keyage(qvk=Memoer._encodeQVK(raw=vk), qss=Memoer._encodeQSS(raw=seed))}
    return SimpleNamespace(seed=seed, vk=vk, sk=sk, vid=vid, keep=keep)


def trans_signer(idseed, signseed):
    """a signer with a TRANSFERABLE ('D') vid made from the key pair of idseed that currently signs with the key pair of
    signseed (== idseed: not rotated yet); the verifier must take the current key from its keep, never from the vid"""
    vk0, _ = pysodium.crypto_sign_seed_keypair(idseed)
    vk, sk = pysodium.crypto_sign_seed_keypair(signseed)
    vid = Memoer._encodeVID(raw=vk0, code="D")
    keep = {vid: Keyage(qvk=Memoer._encodeQVK(raw=vk), qss=Memoer._encodeQSS(raw=signseed))}
    return SimpleNamespace(seed=signseed, vk=vk, sk=sk, vid=vid, keep=keep)


ALICE = signer(bytes(range(32)))
BOB = signer(bytes(range(100, 132)))
MALLORY = signer(bytes(range(200, 232)))


# ---------------------------------------------------------------- guards
class Hang(BaseException):
    pass


@contextmanager
def alarm(seconds=5.0):
    """CPU-time limit (ITIMER_VIRTUAL: only this process's own user time counts, so a loaded machine cannot fake a hang)"""
    def onalarm(sig, frm):
        raise Hang("cpu timer")
    old = signal.signal(signal.SIGVTALRM, onalarm)
    signal.setitimer(signal.ITIMER_VIRTUAL, seconds)
    try:
        yield
    finally:
        signal.setitimer(signal.ITIMER_VIRTUAL, 0)
        signal.signal(signal.SIGVTALRM, old)


class GuardedMemoer(Memoer):
    """Memoer whose `curt` getter counts reads: rend()'s loop reads it once per non-zeroth gram, so a loop that
    does not terminate is cut after `steplimit` reads (long before memory is exhausted)."""
    steplimit = None
    steps = 0

    @property
    def curt(self):
        if self.steplimit is not None:
            self.steps += 1
            if self.steps > self.steplimit:
                raise Hang("step guard")
        return self._curt

    @curt.setter
    def curt(self, curt):
        Memoer.curt.fset(self, curt)


def site_of(ex):
    """innermost hio frame of an exception as module:qualname"""
    tb = ex.__traceback__
    site = "?"
    while tb is not None:
        fn = tb.tb_frame.f_code.co_filename
        if "/hio/" in fn and "/verif/" not in fn:
            mod = fn.split("/hio/", 1)[1][:-3].replace("/", ".")
            site = "%s:%s" % (mod, getattr(tb.tb_frame.f_code, "co_qualname", tb.tb_frame.f_code.co_name))
        tb = tb.tb_next
    return site


# ---------------------------------------------------------------- sending side
def sender(code, curt, size, who=ALICE, steplimit=5000):
    s = GuardedMemoer(code=code, curt=curt, size=size, keep=who.keep, vid=who.vid if code in SIGNED else None)
    s.steplimit = steplimit
    s.steps = 0
    return s


def rend(code, curt, size, memo, who=ALICE, switched=False):
    """real Memoer.rend under both guards -> (grams or None, effective size, exception or None)
    switched: the sender is built for the other header encoding and switched to this one afterwards (.curt setter)"""
    if switched:
        s = sender(code, not curt, size, who)
        s.curt = curt
    else:
        s = sender(code, curt, size, who)
    try:
        with alarm():
            grams = s.rend(memo)
        return [bytes(g) for g in grams], s.size, None
    except BaseException as ex:
        if isinstance(ex, (KeyboardInterrupt, SystemExit)):
            raise
        return None, s.size, ex


def true_overheads(code, curt):
    z, n = OVERHEAD[code]
    return (3 * z // 4, 3 * n // 4) if curt else (z, n)


def min_size(code, curt):
    return true_overheads(code, curt)[0] + 1


# ---------------------------------------------------------------- reference gram builder (wire format)
B64 = "ABCDEFGHIJKLMNOPQRSTUVWXYZabcdefghijklmnopqrstuvwxyz0123456789-_"


def b64int(i, l=4):
    out = ""
    while i or not out:
        out = B64[i % 64] + out
        i //= 64
    return out.rjust(l, "A")


def make_mid(n):
    raw = hashlib.blake2b(b"craft%d" % n, digest_size=16).digest()
    return "0A" + urlsafe_b64encode(b"\x00\x00" + raw)[2:].decode()


def craft(code, neck, mid, body, who=None, curt=False, vid=None):
    """one gram: code + neck (count for zeroth codes, gram number otherwise) + mid [+ vid] + body [+ signature]"""
    head = code + b64int(neck) + mid
    if code in SIGNED:
        head += vid if vid is not None else who.vid
    headb = head.encode()
    if curt:
        headb = urlsafe_b64decode(headb)
    part = headb + body
    if code in SIGNED or code in ("bAAD", "bAAH"):
        raw = pysodium.crypto_sign_detached(part, who.sk)
        sig = ("0B" + urlsafe_b64encode(b"\x00\x00" + raw)[2:].decode()).encode()
        if curt:
            sig = urlsafe_b64decode(sig)
        part += sig
    return part


# ---------------------------------------------------------------- receiving side
def receiver(authic, keep=None):
    kw = dict(echoic=True)
    if keep is not None:
        kw["keep"] = keep
    r = AuthMemoer(**kw) if authic else Memoer(**kw)
    r.reopen()
    return r


def deliver(r, datagrams, step=True):
    """queue (gram, src) datagrams on the receiver's datagram queue and service the receive side.
    step: serviceAllRx() after every datagram; otherwise once after all. -> escaped exception or None"""
    try:
        with alarm():
            if step:
                for gram, src in datagrams:
                    r.echos.append((bytes(gram), src))
                    r.serviceAllRx()
            else:
                for gram, src in datagrams:
                    r.echos.append((bytes(gram), src))
                r.serviceAllRx()
            r.serviceAllRx()
    except BaseException as ex:
        if isinstance(ex, (KeyboardInterrupt, SystemExit)):
            raise
        return ex
    return None


def escape_key(ex):
    if isinstance(ex, Hang):
        return "hang:receive-side"
    t = type(ex)
    name = t.__name__ if t.__module__ == "builtins" else "%s.%s" % (t.__module__, t.__name__)
    return "escape:%s:%s" % (site_of(ex), name)


# ---------------------------------------------------------------- fake datagram kernel
class FakeDgramSocket:
    def __init__(self, ns):
        self.ns = ns
        self.opts = {}
        self.closed = False
        self.name = None
        self.blocking = True

    def setsockopt(self, level, opt, value):
        self.opts[(level, opt)] = value

    def getsockopt(self, level, opt):
        return self.opts.get((level, opt), 1 << 21)

    def setblocking(self, flag):
        self.blocking = bool(flag)

    def bind(self, ha):
        self.name = ha if isinstance(ha, str) else (ha[0], ha[1] or 40001)   # str: unix domain path

    def getsockname(self):
        return self.name

    def close(self):
        self.closed = True

    def recvfrom(self, bs):
        raise BlockingIOError(errno.EAGAIN, "fake: nothing to receive")

    def sendto(self, data, dst):
        if self.closed:
            raise OSError(errno.EBADF, "fake: closed")
        ans = self.ns.answer(bytes(data), dst)
        if isinstance(ans, int) and ans >= 0:
            return ans
        raise OSError(-ans, "fake: " + errno.errorcode.get(-ans, "?"))


class FakeDgramNamespace:
    """stand-in for the `socket` module global of hio.core.udp.udping"""

    def __init__(self, answer):
        self.answer = answer       # answer(data, dst) -> bytes accepted (>=0) or negative errno
        self.socks = []
        for k in dir(_real):
            if k.isupper():
                setattr(self, k, getattr(_real, k))
        self.error = OSError
        self.gaierror = _real.gaierror

    def socket(self, family=_real.AF_INET, type=_real.SOCK_DGRAM, proto=0):
        s = FakeDgramSocket(self)
        self.socks.append(s)
        return s


@contextmanager
def udp_installed(ns):
    from hio.core.udp import udping
    old = udping.socket
    udping.socket = ns
    try:
        yield ns
    finally:
        udping.socket = old


@contextmanager
def uxd_installed(ns):
    from hio.core.uxd import uxding
    old = uxding.socket
    uxding.socket = ns
    try:
        yield ns
    finally:
        uxding.socket = old
