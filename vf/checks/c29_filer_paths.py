"""C29 - Filer keeps what it creates and deletes inside its own directory; clear removes what it created (E3 in a sandbox).

Full product enumeration of configurations x relative names/bases x short operation histories against the real Filer whose
class-level directories are redirected into a sandbox under /dev/shm; oracle = recursive snapshot diff of the sandbox around
every step.
"""
import os
import re
import shutil

from .. import treeguard
from ..enum import Acc

treeguard()
from hio import hioing  # noqa: E402
from hio.base import filing  # noqa: E402

PID = "C29"
LEVEL = "exploration"
ASSUMPTIONS = [
    "the process runs as root on tmpfs (/dev/shm): permission-driven fallbacks to AltHeadDirPath never trigger by themselves; the "
    "alternate head is watched (anything created there is reported) but its fallback logic is not exercised",
    "HeadDirPath / AltHeadDirPath / TempHeadDir are redirected through a Filer subclass (class attributes only, no hio code changed); "
    "'own head directory' = HeadDirPath for persistent instances, the tempfile.mkdtemp directory the instance made for temp instances",
    "'removes what it created' is read as: after close(clear=True) nothing is left at or below .path and, for temp, none of the "
    "instance's mkdtemp directories is left; intermediate directories between a persistent head and .path (tail 'hio', base, "
    "dirname of name) may stay because persistent instances share them - they are only counted (coverage key "
    "leftover_intermediate_dirs_cases)",
    "the same clean flag is passed to every reopen of a history (reopen does not remember it); perm/mode/fext stay at their defaults",
    "mkdtemp directory names are random: they are renamed T1, T2.. in order of creation in every observation and message",
]

NAMES = ["main", "a/b", "a.b", "x.text", ".hid", "../x", "a/../b", "../../x"]
BASES = ["", "b", "b/..", "../b", "../.."]
FLAGS = ("temp", "clean", "filed", "extensioned", "reuse", "clear")
STRICT_INTERMEDIATE = False      # True: persistent intermediate directories left behind by clear are violations too

SANDBOX_ROOT = ("/dev/shm" if os.path.isdir("/dev/shm") and os.access("/dev/shm", os.W_OK) else "/var/tmp") + "/vf_c29_%d"
# layout below the per-case top directory; the deepest escape possible with these names/bases is four levels above
# <head>/hio, i.e. S itself (and rmtree(dirname) of it), so 'outer' and the top directory always survive
S = os.path.join("outer", "S")
L2 = os.path.join(S, "l1", "l2")
HEAD, ALT, TMP = os.path.join(L2, "head"), os.path.join(L2, "alt"), os.path.join(L2, "tmp")
SENTINEL_DIRS = ["outer", os.path.join("outer", "sib"), S, os.path.join(S, "sib"), os.path.join(S, "l1"),
                 os.path.join(S, "l1", "sib"), L2, os.path.join(L2, "sib"), ALT, TMP]
FOREIGN = os.path.join(HEAD, "keep.txt")     # somebody else's file inside the head directory but not in the instance's path
TEMPRE = re.compile(r"hio_[A-Za-z0-9_]+_test")


def SHAPES(tier):
    """0: init, close(clear)   1: init, reopen(reuse), close(clear)   +2: ..., reopen(), close(clear=True)"""
    return (0, 1) if tier == "quick" else (0, 1, 2, 3)


def RULE(tier):
    return ("full product: temp x clean x filed x extensioned x reuse x clear in {False,True}^6 x %d names %r x %d bases %r x history "
            "shapes {init(reopen=True) -> close(clear) ; init -> reopen(reuse) -> close(clear)}%s; every case runs the real Filer in a "
            "fresh sandbox top/outer/S/l1/l2/{head,alt,tmp} with sentinel files in every ancestor and sibling directory and a foreign "
            "file inside head; a recursive snapshot before and after every step gives the sets of created and deleted entries: each "
            "must lie inside head (inside one of the instance's mkdtemp directories when temp); a close(clear=True) deletes only at or "
            "below .path (temp: inside its mkdtemp directories), leaves nothing at .path and no mkdtemp directory of the instance; "
            "every sentinel keeps existing with its content. Constructor rejections (FilerError) are counted and only checked for leaving the sandbox unchanged. Cases are "
            "distinct by construction." % (len(NAMES), NAMES, len(BASES), BASES,
                                           "" if tier == "quick" else " each optionally followed by reopen() -> close(clear=True)"))


def EXHAUSTIVE(tier):
    return True


def jobs(tier):
    return [("C29", ni, bi) for ni in range(len(NAMES)) for bi in range(len(BASES))]


# ----------------------------------------------------------------------------------------------------------------------
# sandbox

def build(top):
    for d in SENTINEL_DIRS + [HEAD]:
        os.makedirs(os.path.join(top, d), exist_ok=True)
    for d in SENTINEL_DIRS:
        with open(os.path.join(top, d, "SENTINEL"), "w") as f:
            f.write("sentinel " + d)
    with open(os.path.join(top, FOREIGN), "w") as f:
        f.write("foreign")


def snapshot(top):
    """relative path -> 'd' | 'f:<content>' | 'l' for everything below top"""
    snap = {}
    for dirpath, dirnames, filenames in os.walk(top):
        rel = os.path.relpath(dirpath, top)
        for d in dirnames:
            p = os.path.normpath(os.path.join(rel, d))
            snap[p] = "l" if os.path.islink(os.path.join(dirpath, d)) else "d"
        for fn in filenames:
            p = os.path.normpath(os.path.join(rel, fn))
            full = os.path.join(dirpath, fn)
            if os.path.islink(full):
                snap[p] = "l"
            else:
                try:
                    with open(full, "rb") as f:
                        snap[p] = "f:" + f.read(64).decode("latin-1")
                except OSError:
                    snap[p] = "f:?"
    return snap


def inside(path, root):
    """path strictly below root (both relative, normalised)"""
    return path.startswith(root + os.sep)


def region(path):
    """where an entry outside the allowed directory lies"""
    if inside(path, TMP):
        return "in-tempheaddir"         # inside TempHeadDir but not in a mkdtemp directory of the instance
    if inside(path, HEAD):
        return "in-head"                # only an escape for temp instances
    if inside(path, ALT):
        return "in-althead"
    return "above-head"                 # an ancestor or sibling of head/alt/tmp, or one of these directories itself


def make_class(top):
    class SandboxFiler(filing.Filer):
        HeadDirPath = os.path.join(top, HEAD)
        AltHeadDirPath = os.path.join(top, ALT)
        TempHeadDir = os.path.join(top, TMP)
    return SandboxFiler


# ----------------------------------------------------------------------------------------------------------------------

def run_case(top, name, base, flags, shape):
    """one history in a fresh sandbox -> (status, violations, observation, stats)"""
    temp, clean, filed, extensioned, reuse, clear = [bool(x) for x in flags]
    build(top)
    cls = make_class(top)
    viols, obs, stats = [], [], {}
    tempnames = {}          # random mkdtemp basename -> T<k>
    mine = set()            # mkdtemp directories made while this instance worked (relative paths)
    created_total = set()
    mode = "temp" if temp else "persistent"
    filer = None
    sentinels = {os.path.join(d, "SENTINEL"): "f:sentinel " + d for d in SENTINEL_DIRS}
    conf = "name=%r base=%r %s" % (name, base, " ".join("%s=%s" % (k, v) for k, v in zip(FLAGS, (temp, clean, filed, extensioned, reuse, clear))))

    def norm(p):
        return TEMPRE.sub(lambda m: tempnames.get(m.group(0), m.group(0)), p)

    def rel(p):
        return os.path.relpath(p, top) if p else None

    steps = [("init", None)]
    if shape & 1:
        steps.append(("reopen", reuse))
    steps.append(("close", clear))
    if shape & 2:
        steps += [("reopen", False), ("close", True)]

    try:
        before = snapshot(top)
        done = []
        for op, arg in steps:
            oldpath = rel(filer.path) if filer is not None else None
            err = None
            try:
                if op == "init":
                    filer = cls(name=name, base=base, temp=temp, reopen=True, clear=clear, reuse=reuse, clean=clean,
                                filed=filed, extensioned=extensioned)
                elif op == "reopen":
                    filer.reopen(reuse=arg, clean=clean)
                else:
                    filer.close(clear=arg)
            except hioing.FilerError as ex:
                if op == "init":        # rejected configuration: not part of the domain; it must not leave anything behind though
                    after = snapshot(top)
                    diff = sorted(set(after) ^ set(before))
                    if diff:
                        viols.append(("rejected-but-changed:%s" % mode, "%s: constructor raised FilerError yet created/deleted %s"
                                      % (conf, ", ".join(TEMPRE.sub("T1", p) for p in diff[:4]))))
                    return "rejected", viols, ("rejected", len(diff)), stats
                err = ex
            except Exception as ex:   # the statement is about where the Filer works, not about raising: recorded, still diffed
                err = ex
            done.append(op)
            after = snapshot(top)
            created = sorted(p for p in after if p not in before)
            deleted = sorted(p for p in before if p not in after)
            changed = sorted(p for p in after if p in before and after[p] != before[p])
            # label new mkdtemp directories
            for p in created:
                if os.path.dirname(p) == TMP and TEMPRE.fullmatch(os.path.basename(p)) and after[p] == "d":
                    tempnames.setdefault(os.path.basename(p), "T%d" % (len(tempnames) + 1))
                    mine.add(p)
            created_total.update(created)
            newpath = rel(filer.path) if filer is not None else None
            step = "%s after %s" % ("%s(%s)" % (op, "" if arg is None else ("reuse=%s" % arg if op == "reopen" else "clear=%s" % arg)),
                                    "+".join(done[:-1]) or "nothing")
            where = "%s, step %s, path %s" % (conf, step, norm(newpath or "None"))
            if err is not None:
                stats["raised_" + type(err).__name__] = stats.get("raised_" + type(err).__name__, 0) + 1

            # -- clause 1: everything created or deleted lies inside the own head directory / the own temp directory
            def allowed(p):
                if temp:
                    return any(p == t or inside(p, t) for t in mine)
                return inside(p, HEAD)
            for what, entries in (("create", created), ("delete", deleted)):
                bad = [p for p in entries if not allowed(p)]
                if bad:
                    # one key per event: classified by its shallowest entry (an rmtree of a big directory is one event)
                    topmost = min(bad, key=lambda p: (p.count(os.sep), p))
                    viols.append(("escape:%s:%s:%s" % (what, mode, region(topmost)),
                                  "%s: %sd outside its own %s: %s" % (where, what, "mkdtemp directory" if temp else "head directory",
                                                                       ", ".join(norm(p) for p in bad[:4]) + (" .. %d entries" % len(bad) if len(bad) > 4 else ""))))
            # -- sentinels
            lost = sorted(p for p, v in sentinels.items() if before.get(p) == v and after.get(p) != v)
            if lost:
                viols.append(("sentinel-destroyed:%s:%s" % (op, mode), "%s: sentinel files gone or altered: %s" % (where, ", ".join(lost[:4]))))
            if changed and not lost:
                foreign = [p for p in changed if not (inside(p, HEAD) or any(inside(p, t) for t in mine))]
                if foreign:
                    viols.append(("foreign-altered:%s:%s" % (op, mode), "%s: entries altered: %s" % (where, ", ".join(norm(p) for p in foreign[:4]))))
            # -- clause 2: close with clear
            if op == "close" and arg:
                own = oldpath
                if temp:
                    outside = [p for p in deleted if not (any(p == t or inside(p, t) for t in mine)
                                                          or (own is not None and (p == own or inside(p, own))))]
                else:
                    outside = [p for p in deleted if own is None or not (p == own or inside(p, own))]
                if outside:
                    viols.append(("clear-deletes-outside-own-path:%s:%s" % (mode, "filed" if filed else "dir"),
                                  "%s: close(clear=True) with own path %s deleted %s" % (where, norm(own or "None"), ", ".join(norm(p) for p in outside[:4]))))
                if own is not None and any(p == own or inside(p, own) for p in after):
                    viols.append(("clear-leaves:path:%s" % mode, "%s: close(clear=True) left %s" % (where, norm(own))))
                if temp:
                    left = sorted((t for t in mine if t in after), key=lambda t: int(tempnames[os.path.basename(t)][1:]))
                    latest = "T%d" % len(tempnames)
                    for t in left:
                        if tempnames[os.path.basename(t)] == latest:
                            viols.append(("clear-leaves:temp-root", "%s: close(clear=True) left the instance's mkdtemp directory %s holding %s"
                                          % (where, norm(t), [norm(p) for p in sorted(after) if inside(p, t)][:4])))
                        else:
                            viols.append(("clear-leaves:earlier-temp-root", "%s: the mkdtemp directory %s of an earlier (re)open of the same "
                                          "instance is still there" % (where, norm(t))))
                else:
                    rest = sorted(p for p in created_total if p in after and inside(p, HEAD))
                    if rest:
                        stats["leftover_intermediate_dirs_cases"] = 1
                        if STRICT_INTERMEDIATE:
                            viols.append(("clear-leaves:intermediate:persistent", "%s: close(clear=True) left %s" % (where, ", ".join(rest[:4]))))
            obs.append((op, arg, tuple(norm(p) for p in created), tuple(norm(p) for p in deleted),
                        type(err).__name__ if err is not None else None))
            before = after
            if err is not None:
                break
        return "ran", viols, tuple(obs), stats
    finally:
        try:
            if filer is not None and getattr(filer, "file", None):
                filer.file.close()
        except Exception:
            pass
        shutil.rmtree(top, ignore_errors=True)


def cases(tier):
    for bits in range(64):
        flags = [(bits >> (5 - i)) & 1 for i in range(6)]
        for shape in SHAPES(tier):
            yield flags + [shape]


def run_job(job, tier, seed):
    _, ni, bi = job
    acc = Acc(job)
    root = SANDBOX_ROOT % os.getpid()
    n = 0
    try:
        os.makedirs(root, exist_ok=True)
        for case in cases(tier):
            n += 1
            top = os.path.join(root, "j%d_%d_c%d" % (ni, bi, n))
            status, viols, obs, stats = run_case(top, NAMES[ni], BASES[bi], case[:6], case[6])
            acc.case(case, obs, (), sample=dict(name=NAMES[ni], base=BASES[bi], flags=dict(zip(FLAGS, case[:6])), shape=case[6],
                                                   steps=[list(map(str, o)) for o in obs][:5] if status == "ran" else obs))
            for key, msg in viols:      # smallest counterexample = plainest name/base, fewest flags set, shortest history
                acc.r.add_violation(key, msg, job, case, ni + bi + sum(case[:6]) + case[6])
            acc.extra(**{"constructor_rejected" if status == "rejected" else "cases_run": 1})
            acc.extra(**stats)
    finally:
        shutil.rmtree(root, ignore_errors=True)
    return acc.result()


def replay(job, case):
    ni, bi = int(job[1]), int(job[2])
    root = SANDBOX_ROOT % os.getpid() + "_replay"
    try:
        os.makedirs(root, exist_ok=True)
        return run_case(os.path.join(root, "c"), NAMES[ni], BASES[bi], [int(x) for x in case[:6]], int(case[6]))[1]
    finally:
        shutil.rmtree(root, ignore_errors=True)
