"""C30 - running under asyncio gives the same schedule as the plain loop (differential, all ready-queue orders)."""
import asyncio

from .. import sched
from ..env import vloop
from ..explore import Outcome, standard, sharded

PID = "C30"
LEVEL = "model_checking"
ASSUMPTIONS = [
    "CPython 3.12; non-real-time mode; asyncio replaced by a hand-stepped BaseEventLoop subclass with virtual time",
    "competitor tasks only await asyncio.sleep(0); the explorer picks the next ready handle (superset of FIFO)",
]
MODE = sched.Mode("C30", tocks=True, rets=True, raises=True, enterdone=True, enterfail=True, horizon=3,
                  limits=(None, 2.0, 2.5, 0.3), always=True, callcfg=True, rerun=True, prerun=True, sysexit=True, stale=True, dupdoer=True)


def BOUND(tier):
    return 2 if tier == "quick" else 3


def RULE(tier):
    return ("" if tier == "quick" else "thorough tier: every forest of nesting depth <= 2 with <= 4 leaves and of depth 3 with <= 2 leaves; deviation bound 3 on forests of <= 2 leaves, else 2; the configuration sweeps (full grid of tock x start x limit x way of configuring) with one deviation. ") + ("every doer forest shape of the tier x every execution with <= %d deviations (config, leaf kind, per-step "
            "yield/return/raise/complete-or-fail in enter, limit and start tyme given to the constructor or to do()/ado() over stale constructor values (optionally followed by a second run without arguments), and which ready asyncio handle runs next while 0..2 competitor "
            "tasks spin on sleep(0)); the run with Doist.do() and the run with Doist.ado() on the virtual loop must give "
            "identical event traces, tymes, done flags, completion cycle and forced exits." % BOUND(tier))


def EXHAUSTIVE(tier):
    return False


def jobs(tier):
    if tier == "quick":
        sh = sched.shapes(2, maxtop=2, maxleaves=3, always=True)
    else:
        # forests of depth <= 2 with <= 4 leaves, plus the deeper ones with <= 2 leaves (the do()/ado() difference lies in the
        # scheduler's own loop; the full depth-3 set of the scheduler group took an hour here for no new outcome classes)
        sh = sched.shapes(2, maxtop=3, maxleaves=4, always=True)
        sh = sh + [x for x in sched.shapes(3, maxtop=2, maxleaves=2, always=True) if x not in sh]
    sweep = [("C30", s, 1, "sweep") for s in [("L",), ("L", "L"), (("D", True, ("L",)),), (("D", False, ("L", "L")),)]]
    return sharded(sweep, 8) + [("C30", s, nc) for s in sh for nc in (0, 1, 2)]      # the long sweep shards first


def view(w):
    return (tuple(e for e in w.trace), tuple(sorted((k, repr(v)) for k, v in w.dones.items())), w.done, w.final_tyme,
            w.result, w.cycle)


def harness(job, ch):
    shape, ncomp = job[1], job[2]
    base = sched.run(("C30", shape) + tuple(x for x in job[3:] if x == "sweep"), ch, mode=MODE)
    cfg = (base.T, base.start, base.limit, base.via, base.sgn, base.dup)
    kmap = dict(base.kindsel)
    spins = [0]

    def runner(w):
        d = w.doist

        async def comp():
            while True:
                spins[0] += 1
                await asyncio.sleep(0)

        def pick(n):
            return ch.choose(n, "ready")
        try:
            res, exc, steps = vloop.drive(lambda: d.ado(**w.call_kwargs), pick, competitors=[comp] * ncomp)
            if exc is None and w.second_run:
                w.log("#", "second-run")
                res, exc, steps = vloop.drive(lambda: d.ado(), pick, competitors=[comp] * ncomp)
        except vloop.Deadlock:
            w.log("#", "horizon")
            w.end = len(w.trace)
            w.result = "horizon"
            return
        if exc is None:
            w.log("#", "do_return")
            w.end = len(w.trace)
            w.result = "return"
        elif isinstance(exc, sched.Horizon):
            w.log("#", "horizon")
            w.end = len(w.trace)
            w.result = "horizon"
        else:
            w.log("#", "do_raise", type(exc).__name__)
            w.end = len(w.trace)
            w.result = "raise:" + type(exc).__name__
        exc = None

    w = sched.run(("C30", shape), None, mode=MODE, table=dict(base.decisions), cfg=cfg,
                  kinds=lambda nm: kmap[nm], runner=runner)
    viol = []
    a, b = view(base), view(w)
    if w.table_miss:
        viol.append(("ado-takes-extra-step", "ado run asked for decisions the do run never made: %s" % w.table_miss[:3]))
    elif a != b:
        viol.append(("do-vs-ado:" + _diff(a, b)[0], "do() and ado() differ: %s" % _diff(a, b)[1]))
    return Outcome(obs=(a, spins[0] > 0), violations=viol, states=sched.state_seq(base),
                   sample=dict(shape=repr(shape), competitors=ncomp, result=base.result, events=len(base.trace),
                               competitor_spins=spins[0]))


def _diff(a, b):
    if a[4] != b[4]:
        return ("result", "do %r ado %r" % (a[4], b[4]))
    if a[5] != b[5] or a[3] != b[3]:
        return ("completion-cycle", "do cycles/tyme %r/%r ado %r/%r" % (a[5], a[3], b[5], b[3]))
    if a[2] != b[2]:
        return ("doist-done", "do %r ado %r" % (a[2], b[2]))
    if a[1] != b[1]:
        return ("done-flags", "do %r ado %r" % (a[1], b[1]))
    for i in range(min(len(a[0]), len(b[0]))):
        if a[0][i] != b[0][i]:
            return ("trace", "event %d do %r ado %r" % (i, a[0][i], b[0][i]))
    return ("trace-length", "do %d events, ado %d" % (len(a[0]), len(b[0])))


def job_bound(job, tier):
    """the configuration sweeps keep one deviation in both tiers (every execution is two runs plus the loop's choices: with two
    deviations a single sweep shard ran for more than an hour)"""
    if "sweep" in job:
        return 2          # standard() takes one off for sweep jobs
    return sched.tier_bound(job, tier)


run_job, replay = standard(harness, BOUND, job_bound=job_bound)
