"""C24 - keyed durable sub-databases (Suber, IoSuber, IoSetSuber) match a dictionary model for all keys.

E2: explicit-state BFS over operation histories against the REAL Suber classes on a real LMDB environment in a
private /dev/shm sandbox; reference model = dict of values / lists / insertion-ordered sets in lock step; after every
operation every key of the key set is read back (get, cnt, getFirst, getLast).
"""
from itertools import combinations

from .. import treeguard
from ..enum import Acc, bfs
from ..storesys import Sandbox, raw_drop, raw_items, site_of, sweep

treeguard()
from hio.base import during  # noqa: E402

PID = "C24"
LEVEL = "model_checking"
TAG = "c24"
NAME = "vfk"

# the colliding key is built from hio's own suffix format: key + IonSep + "%032x" % ordinal
SUFFIXLIKE = during.Duror.suffix("a", 0, sep=during.IoSuber.IonSep).decode()
KEYS = ["a", "ab", "a.b", ("a", "b"), "a.0", SUFFIXLIKE]
KNAME = ["a", "ab", "a.b", "(a,b)", "a.0", "a.<32 hex zeros>"]
KA, KSUF = 0, 5
assert SUFFIXLIKE == "a." + "0" * 32, SUFFIXLIKE
FAMS = ("suber", "io", "ioset")
CLS = {"suber": during.Suber, "io": during.IoSuber, "ioset": during.IoSetSuber}
SUBKEY = {"suber": "vfsu.", "io": "vfio.", "ioset": "vfis."}

ASSUMPTIONS = [
    "keys {a, ab, a.b, ('a','b'), a.0, a.<32 hex zeros>} (the last one is Duror.suffix('a', 0): key 'a' plus a well-formed "
    "ordinal suffix), values {x, y} and, in a second search over fewer keys, {'' (empty), x}; default separators (Sep '_', IonSep '.')",
    "put/pin on the ordered stores are driven with the value lists [y,x] (put) and [x,y] (pin), add with single values",
    "real LMDB (py-lmdb) in a private /dev/shm sandbox; within one BFS job the LMDB environment is opened once and the "
    "sub-database is emptied through lmdb (drop) before each history is replayed with a fresh Suber object - the Suber "
    "classes keep no state outside LMDB; a counterexample replay opens a brand-new environment",
    "result model: Suber put -> True iff key absent, pin -> True, rem -> True iff present; IoSuber add/put/pin -> True, "
    "pop -> oldest or None, rem -> True iff non-empty; IoSetSuber add -> True iff new, put -> True iff something new, "
    "pin -> True, rem(val) -> True iff present",
    "after a violation the model takes over what the store's get() returns, so that one defect is not re-reported as "
    "a cascade of different-looking ones",
]


def plan(tier):
    """[(family, key index tuple, depth)]: the whole key set to a smaller depth plus every key pair to the full depth"""
    full = tuple(range(len(KEYS)))
    pairs = list(combinations(range(len(KEYS)), 2))
    out = []
    if tier == "thorough":
        out.append(("suber", full, 6))
        for fam in ("io", "ioset"):
            out.append((fam, full, 4))
            out.extend((fam, p, 6) for p in pairs)
    else:
        out.append(("suber", full, 4))
        for fam in ("io", "ioset"):
            out.append((fam, full, 3))
            out.extend((fam, p, 4) for p in pairs)
    return out


def RULE(tier):
    return ("explicit-state BFS from the empty sub-database, one shard per first event, states deduplicated on the raw LMDB "
            "content (keys with their hidden ordinals, values). Families: Suber over all 6 keys to depth %s with events "
            "put/pin(k, x|y), rem(k); IoSuber and IoSetSuber over all 6 keys to depth %s and over each of the 15 key PAIRS to "
            "depth %s with events add(k, x|y), put(k,[y,x]), pin(k,[x,y]), pop(k), rem(k) and, for IoSetSuber, rem(k, x|y). "
            "After EVERY operation: its return value is compared with the dict / dict-of-lists / dict-of-ordered-sets model; "
            "get, cnt, getFirst, getLast (Suber: get, cntAll) of the operated key are compared with the model; and for every "
            "OTHER key of the key set the same four reads must be unchanged by the operation. The same search is repeated with "
            "the value alphabet {EMPTY string, x} (Suber over keys a, ab, a.b; IoSuber and IoSetSuber over the pair a, ab) to depth %s: "
            "an empty value is a value, not an absent key."
            % (("6", "4", "6", "6") if tier == "thorough" else ("4", "3", "4", "4")))


def EXHAUSTIVE(tier):
    return True


def BOUND(tier):
    return "history length per family: " + ", ".join(sorted({"%s/%d keys<=%d" % (f, len(ks), d) for f, ks, d in plan(tier)}))


def events_for(fam, ks, vals="xy"):
    """vals 'xy': values x, y; vals 'ex': the EMPTY string and x (an empty value is a legal value, not an absent key)"""
    v1, v2 = ("x", "y") if vals == "xy" else ("", "x")
    ev = []
    for k in ks:
        if fam == "suber":
            ev += [("put", k, v1), ("put", k, v2), ("pin", k, v1), ("pin", k, v2), ("rem", k)]
        else:
            ev += [("add", k, v1), ("add", k, v2), ("put", k, (v2, v1)), ("pin", k, (v1, v2)), ("pop", k), ("rem", k)]
            if fam == "ioset":
                ev += [("rem", k, v1), ("rem", k, v2)]
                if vals == "xy":
                    ev += [("add", k, "z")]                  # a third value: removing the middle one leaves a hole in the ordinals
            elif vals == "xy":
                ev += [("pin", k, (v1, v1, v2))]             # a list may repeat a value
            if vals == "xy":
                ev += [("pin", k, ())]                       # pinned to nothing: the key reads empty afterwards
    return ev


def plan_empty(tier):
    """[(family, key index tuple, depth)] for the empty-value alphabet"""
    d = 6 if tier == "thorough" else 4
    return [("suber", (0, 1, 2), d), ("io", (0, 1), d), ("ioset", (0, 1), d)]


def jobs(tier):
    sweep(TAG)
    out = []
    for fam, ks, depth in plan(tier):
        n = len(events_for(fam, ks))
        for k in range(n):
            out.append((fam, ks, depth, k, n))
    for fam, ks, depth in plan_empty(tier):
        n = len(events_for(fam, ks, "ex"))
        for k in range(n):
            out.append((fam, ks, depth, k, n, "ex"))
    return out


# ------------------------------------------------------------------------------------------------ reference model
def dbkey(k):
    key = KEYS[k]
    return key.encode() if isinstance(key, str) else "_".join(key).encode()


DBKEYS = [dbkey(k) for k in range(len(KEYS))]
assert len(set(DBKEYS)) == len(KEYS)


def model_step(fam, model, ev):
    """returns (expected result, new model); model: {key index: value | list}"""
    op, k = ev[0], ev[1]
    m = dict(model)
    if fam == "suber":
        if op == "put":
            if k in m:
                return False, m
            m[k] = ev[2]
            return True, m
        if op == "pin":
            m[k] = ev[2]
            return True, m
        if op == "rem":
            return (m.pop(k, None) is not None), m
        raise ValueError(ev)
    cur = list(m.get(k, []))
    if op == "add":
        if fam == "ioset" and ev[2] in cur:
            return False, m
        m[k] = cur + [ev[2]]
        return True, m
    if op == "put":
        if fam == "io":
            m[k] = cur + list(ev[2])
            return True, m
        new = []
        for v in ev[2]:
            if v not in cur and v not in new:
                new.append(v)
        m[k] = cur + new
        return bool(new), m
    if op == "pin":
        vals = list(ev[2])
        if fam == "ioset":
            vals = list(dict.fromkeys(vals))
        m[k] = vals
        return (True if vals else "any"), m       # (what pin returns when there is nothing to write is not documented)
    if op == "pop":
        if not cur:
            return None, m
        m[k] = cur[1:]
        return cur[0], m
    if op == "rem" and (len(ev) == 2 or ev[2] == ""):     # IoSetSuber.rem documents: "If val is empty, remove all values"
        m[k] = []
        return bool(cur), m
    if op == "rem":
        if ev[2] in cur:
            cur.remove(ev[2])
            m[k] = cur
            return True, m
        return False, m
    raise ValueError(ev)


def model_obs(fam, model, k):
    if fam == "suber":
        return (model.get(k),)
    cur = list(model.get(k, []))
    return (cur, len(cur), cur[0] if cur else None, cur[-1] if cur else None)


FIELDS = {"suber": ("get",), "io": ("get", "cnt", "getFirst", "getLast"), "ioset": ("get", "cnt", "getFirst", "getLast")}


# ------------------------------------------------------------------------------------------------ real system
def real_step(fam, sub, ev):
    op, key = ev[0], KEYS[ev[1]]
    if fam == "suber":
        if op == "put":
            return sub.put(key, ev[2])
        if op == "pin":
            return sub.pin(key, ev[2])
        if op == "rem":
            return sub.rem(key)
        raise ValueError(ev)
    if op == "add":
        return sub.add(key, ev[2])
    if op == "put":
        return sub.put(key, list(ev[2]))
    if op == "pin":
        return sub.pin(key, list(ev[2]))
    if op == "pop":
        return sub.pop(key)
    if op == "rem" and len(ev) == 2:
        return sub.rem(key)
    if op == "rem":
        return sub.rem(key, ev[2])
    raise ValueError(ev)


def _call(f, *a):
    try:
        return f(*a)
    except Exception as ex:
        return "exc:%s@%s" % (type(ex).__name__, site_of(ex))


def observe(fam, sub, ks):
    """{key index: tuple of reads}"""
    o = {}
    for k in ks:
        key = KEYS[k]
        if fam == "suber":
            o[k] = (_call(sub.get, key),)
        else:
            o[k] = (_call(sub.get, key), _call(sub.cnt, key), _call(sub.getFirst, key), _call(sub.getLast, key))
    return o


def nonempty(fam, raw, k):
    """does key k own entries in the raw content (Suber: the key itself; ordered stores: key + '.' + 32 hex digits)"""
    want = DBKEYS[k]
    if fam == "suber":
        return any(rk == want for rk, _ in raw)
    return any(rk.rpartition(b".")[0] == want and len(rk.rpartition(b".")[2]) == 32 for rk, _ in raw)


def own_class(fam, raw, k, ks):
    """coarse class of the operated key: which kind of look-alike neighbour currently holds data"""
    if fam == "suber":
        return "plain-key"
    if (k == KA and nonempty(fam, raw, KSUF)) or (k == KSUF and nonempty(fam, raw, KA)):
        return "suffix-like-key"
    for j in ks:
        if j != k and pair_class(k, j) == "prefix-key" and nonempty(fam, raw, j):
            return "prefix-key"
    return "plain-key"


def pair_class(k, j):
    if {k, j} == {KA, KSUF}:
        return "suffix-like-key"
    a, b = DBKEYS[k], DBKEYS[j]
    if a.startswith(b) or b.startswith(a):
        return "prefix-key"
    return "unrelated-key"


def first_diff(fam, got, want):
    for name, g, w in zip(FIELDS[fam], got, want):
        if g != w or type(g) is not type(w):
            return name, g, w
    return None


class KSys:
    """one Duror + one sub-database; `fresh()` empties the sub-database and hands out a new Suber object"""

    def __init__(self, sb, fam):
        self.fam = fam
        self.db = during.Duror(name=NAME, headDirPath=sb.path, temp=False, reopen=True)
        sb.under(self.db.path)
        self.sub = None

    def fresh(self):
        self.sub = CLS[self.fam](db=self.db, subkey=SUBKEY[self.fam])
        raw_drop(self.db.env, self.sub.sdb)
        return self.sub

    def raw(self):
        return raw_items(self.db.env, self.sub.sdb)

    def close(self):
        self.db.close()


def execute(sys_, fam, ks, hist, last_only):
    sub = sys_.fresh()
    model = {}
    viols = []
    obs = observe(fam, sub, ks)
    raw = sys_.raw()
    res = None
    if not hist:
        for k in ks:
            d = first_diff(fam, obs[k], model_obs(fam, model, k))
            if d:
                viols.append(("own-key:%s-differs:%s.init:plain-key" % (d[0], fam), "empty store: %s(%r)=%r" % (d[0], KEYS[k], d[1])))
    for i, ev in enumerate(hist):
        ev = tuple(ev)
        k = ev[1]
        opname = "%s.%s%s" % (fam, ev[0], "-val" if (ev[0] == "rem" and len(ev) == 3) else "")
        text = "%s(%s%s)" % (ev[0], KNAME[k], "".join(", " + repr(x) for x in ev[2:]))
        sofar = [list(e) for e in hist[:i + 1]]
        step = []
        before = obs
        kcls = own_class(fam, raw, k, ks)
        want, model = model_step(fam, model, ev)
        try:
            res = real_step(fam, sub, ev)
        except Exception as ex:
            res = "exc:" + type(ex).__name__
            step.append(("raises:%s:%s:%s" % (opname, type(ex).__name__, kcls),
                         "%s raised %r at %s; history %r" % (text, ex, site_of(ex), sofar)))
        else:
            if want != "any" and (res != want or type(res) is not type(want)):
                step.append(("result:%s:%s" % (opname, kcls), "%s returned %r, model %r; history %r" % (text, res, want, sofar)))
        obs = observe(fam, sub, ks)
        raw = sys_.raw()
        for j in ks:
            for name, g in zip(FIELDS[fam], obs[j]):
                if isinstance(g, str) and g.startswith("exc:"):
                    step.append(("raises:%s.%s:%s:%s" % (fam, name, g[4:].split("@")[0], own_class(fam, raw, j, ks)),
                                 "%s(%r) raised %s after %s; history %r" % (name, KEYS[j], g[4:], text, sofar)))
                    break
        d = first_diff(fam, obs[k], model_obs(fam, model, k))
        if d:
            step.append(("own-key:%s-differs:%s:%s" % (d[0], fam, kcls),
                         "after %s: %s(%r)=%r, model %r; history %r" % (text, d[0], KEYS[k], d[1], d[2], sofar)))
        for j in ks:
            if j == k:
                continue
            d = first_diff(fam, obs[j], before[j])
            if d:
                step.append(("cross-key:%s-changed:%s:%s" % (d[0], fam, pair_class(k, j)),
                             "%s changed %s(%r) from %r to %r; history %r" % (text, d[0], KEYS[j], d[2], d[1], sofar)))
        if fam == "suber":
            n = _call(sub.cntAll)
            if n != len([1 for j in ks if obs[j][0] is not None]) and not step:
                step.append(("own-key:cntAll-differs:%s:%s" % (fam, kcls), "cntAll()=%r after %s; history %r" % (n, text, sofar)))
        if step:   # the model follows what the store answers (see ASSUMPTIONS)
            for j in ks:
                g = obs[j][0]
                if isinstance(g, str) and g.startswith("exc:"):
                    continue
                if fam == "suber":
                    if g is None:
                        model.pop(j, None)
                    else:
                        model[j] = g
                else:
                    model[j] = list(g)
        if not last_only or i == len(hist) - 1:
            viols.extend(step)
    key = tuple(raw)
    return key, viols, (key, repr(res))


def run_job(job, tier, seed):
    fam, ks, depth, k, n = job[:5]
    ks = tuple(int(x) for x in ks)
    acc = Acc(job)
    evs = events_for(fam, ks, job[5] if len(job) > 5 else "xy")
    with Sandbox(TAG) as sb:
        s = KSys(sb, fam)
        try:
            bfs(acc, lambda hist: execute(s, fam, ks, hist, True), lambda hist, key: evs, maxdepth=int(depth),
                first=(int(k), int(n)))
        finally:
            s.close()
    return acc.result()


def replay(job, hist):
    fam, ks = job[0], tuple(int(x) for x in job[1])
    with Sandbox(TAG) as sb:
        s = KSys(sb, fam)
        try:
            return execute(s, fam, ks, [tuple(e) for e in hist], False)[1]
        finally:
            s.close()


def finish(total, tier):
    return dict(plan=["%s keys=%s depth=%d" % (f, "all" if len(ks) == len(KEYS) else "every pair", d)
                      for f, ks, d in plan(tier) if len(ks) == len(KEYS) or ks == (0, 1)], exhaustive=True)
